// Command gosym decides one property of go-ucfg by bounded symbolic execution
// of the real code (see /verif/DESIGN.md).
//
//	gosym -prop C03 -tier quick        explore every harness H_C03_*, replay findings natively,
//	                                   classify against known_findings.json, write evidence/C03.json
//	gosym -replay evidence/replays/x.json
//	gosym -harness H_C03_x -tier quick -v     (development)
//
// Exit codes: 0 held (known findings printed), 1 VIOLATION, 2 INCONCLUSIVE.
package main

import (
	"bytes"
	"crypto/sha1"
	"encoding/json"
	"flag"
	"fmt"
	"os"
	"os/exec"
	"path/filepath"
	"sort"
	"strconv"
	"strings"
	"time"

	"gosym/interp"
)

type knownFinding struct {
	Property string `json:"property"`
	Label    string `json:"label"`
	What     string `json:"what"`
	Replay   string `json:"replay,omitempty"`
}

type knownFile struct {
	Findings []knownFinding `json:"findings"`
	Fixed    []string       `json:"fixed"`
}

type harnessMeta struct {
	Bounds  map[string]string `json:"bounds"`  // tier -> text
	Outside string            `json:"outside"`
	Assumes []string          `json:"assumptions"`
	Reach   []string          `json:"reach"` // labels that must be reached
	MaxPaths map[string]int64 `json:"max_paths"`
	MaxSteps int64            `json:"max_steps"`
	EngineOnly []string       `json:"engine_only_labels"` // label prefixes confirmed by engine re-execution, not natively
}

type replayFile struct {
	Property  string            `json:"property"`
	Harness   string            `json:"harness"`
	Tier      string            `json:"tier"`
	Label     string            `json:"label"`
	Kind      string            `json:"kind"`
	Msg       string            `json:"msg"`
	Values    map[string]string `json:"values"`
	Decisions []int64           `json:"decisions"`
	Stack     []string          `json:"stack,omitempty"`
}

var (
	verifDir = flag.String("verif", "/verif", "verification root")
	prop     = flag.String("prop", "", "property id (C01..C20)")
	harness  = flag.String("harness", "", "single harness function (development)")
	tierF    = flag.String("tier", "quick", "quick | thorough")
	workers  = flag.Int("workers", 0, "worker count (default: all cores)")
	replayF  = flag.String("replay", "", "replay a violation file")
	verbose  = flag.Bool("v", false, "verbose")
	trace    = flag.Bool("trace", false, "trace instructions (development)")
	solverF  = flag.String("solver", "z3", "z3 | z3-new | cvc5")
	budget   = flag.Duration("budget", 0, "wall-clock budget for exploration (0: per tier default)")
	maxPaths = flag.Int64("maxpaths", 0, "override path budget")
	noNative = flag.Bool("nonative", false, "skip native replays (development)")
	confF    = flag.String("conf", "", "run conformance functions (comma separated, or 'all') natively and in the engine and compare")
)

func main() {
	flag.Parse()
	os.Setenv("GOFLAGS", "-mod=mod")
	os.Setenv("GOPROXY", "off")
	os.Setenv("GOSUMDB", "off")
	os.Setenv("GOTOOLCHAIN", "local")
	if *replayF != "" {
		os.Exit(doReplay(*replayF))
	}
	if *confF != "" {
		os.Exit(doConf(*confF))
	}
	if *prop == "" && *harness == "" {
		fmt.Fprintln(os.Stderr, "need -prop or -harness")
		os.Exit(2)
	}
	os.Exit(run())
}

func seed() int {
	s, _ := strconv.Atoi(os.Getenv("VERIF_SEED"))
	return s
}

func inconclusive(id, why string) int {
	fmt.Printf("INCONCLUSIVE property=%s %s\n", id, why)
	return 2
}

type nativeRunner struct {
	bin   string
	dir   string
	err   error
	ready chan struct{}
}

func buildNative(verif string) *nativeRunner {
	n := &nativeRunner{ready: make(chan struct{})}
	go func() {
		defer close(n.ready)
		dir, err := os.MkdirTemp("", "gosym-replay-")
		if err != nil {
			n.err = err
			return
		}
		n.dir = dir
		n.bin = filepath.Join(dir, "replay")
		cmd := exec.Command("go", "build", "-o", n.bin, "./cmd/replay")
		cmd.Dir = filepath.Join(verif, "harness")
		out, err := cmd.CombinedOutput()
		if err != nil {
			n.err = fmt.Errorf("native harness build failed: %v\n%s", err, out)
		}
	}()
	return n
}

func (n *nativeRunner) cleanup() {
	<-n.ready
	if n.dir != "" {
		os.RemoveAll(n.dir)
	}
}

type nativeResult struct {
	exit   int
	out    string
	killed bool
}

// run executes the harness natively under the given model.
func (n *nativeRunner) run(h string, tier string, values map[string]string) (*nativeResult, error) {
	<-n.ready
	if n.err != nil {
		return nil, n.err
	}
	mf, err := os.CreateTemp(n.dir, "model-*.json")
	if err != nil {
		return nil, err
	}
	json.NewEncoder(mf).Encode(map[string]interface{}{"harness": h, "values": values})
	mf.Close()
	defer os.Remove(mf.Name())
	cmd := exec.Command(n.bin, h)
	cmd.Env = append(os.Environ(), "VERIF_MODEL="+mf.Name(), "VERIF_TIER="+tier, "GOMAXPROCS=2", "GOMEMLIMIT=2GiB")
	var buf bytes.Buffer
	cmd.Stdout = &buf
	cmd.Stderr = &buf
	if err := cmd.Start(); err != nil {
		return nil, err
	}
	done := make(chan error, 1)
	go func() { done <- cmd.Wait() }()
	res := &nativeResult{}
	select {
	case err := <-done:
		if ee, ok := err.(*exec.ExitError); ok {
			res.exit = ee.ExitCode()
		} else if err != nil {
			return nil, err
		}
	case <-time.After(20 * time.Second):
		cmd.Process.Kill()
		<-done
		res.killed = true
		res.exit = -1
	}
	out := buf.String()
	if len(out) > 6000 {
		out = out[:3000] + "\n...\n" + out[len(out)-3000:]
	}
	res.out = out
	return res, nil
}

// reproduced decides whether a native run shows the finding.
func reproduced(f *interp.Finding, r *nativeResult) bool {
	switch f.Kind {
	case "assert":
		return strings.Contains(r.out, "ASSERT-FAILED "+f.Label+"\n")
	case "panic":
		return strings.Contains(r.out, "PANIC "+f.Label+":") || (f.Label == "goroutine-panic" && r.exit == 2 && strings.Contains(r.out, "panic:"))
	case "leak":
		return strings.Contains(r.out, "LEAK goroutine-leak")
	case "alloc":
		return strings.Contains(r.out, "ALLOC alloc-limit") || strings.Contains(r.out, "out of memory") || r.killed
	case "hang":
		return r.killed || strings.Contains(r.out, "stack overflow") || strings.Contains(r.out, "goroutine stack exceeds")
	case "write":
		return strings.Contains(r.out, "WRITE "+f.Label+":")
	case "share":
		return strings.Contains(r.out, "SHARE "+f.Label+":")
	case "deadlock":
		return r.killed || strings.Contains(r.out, "all goroutines are asleep")
	}
	return false
}

func loadKnown(verif string) knownFile {
	var k knownFile
	b, err := os.ReadFile(filepath.Join(verif, "known_findings.json"))
	if err == nil {
		json.Unmarshal(b, &k)
	}
	return k
}

func loadMeta(verif string) map[string]harnessMeta {
	m := map[string]harnessMeta{}
	b, err := os.ReadFile(filepath.Join(verif, "harness", "bounds.json"))
	if err == nil {
		if err := json.Unmarshal(b, &m); err != nil {
			fmt.Fprintln(os.Stderr, "bounds.json:", err)
		}
	}
	return m
}

type harnessReport struct {
	Name        string                 `json:"harness"`
	Bounds      string                 `json:"bounds"`
	Outside     string                 `json:"outside,omitempty"`
	Paths       int64                  `json:"paths"`
	AssumedAway int64                  `json:"paths_assumed_away"`
	Decisions   int64                  `json:"branch_decisions"`
	DomainDec   int64                  `json:"decisions_settled_by_exact_finite_domain_tableau"`
	PCChecks    int64                  `json:"completed_paths_with_path_condition_rechecked_by_smt"`
	Forks       int64                  `json:"forks"`
	Queries     int64                  `json:"queries"`
	Sat         int64                  `json:"sat"`
	Unsat       int64                  `json:"unsat"`
	Unknown     int64                  `json:"unknown"`
	SolverS     float64                `json:"solver_time_s"`
	Steps       int64                  `json:"ssa_steps"`
	MaxPath     int64                  `json:"max_path_steps"`
	Obligations int64                  `json:"obligations"`
	Discharged  int64                  `json:"discharged"`
	Reach       map[string]int64       `json:"reach_labels"`
	BoundHits   map[string]int64       `json:"bound_hits,omitempty"`
	Unsupported map[string]int64       `json:"unsupported,omitempty"`
	Stubs       map[string]int64       `json:"stubs,omitempty"`
	FindingsRaw map[string]int64       `json:"finding_paths,omitempty"`
	WallS       float64                `json:"wall_s"`
	MaxInputs   int                    `json:"max_symbolic_inputs_on_a_path"`
	Exhaustive  bool                   `json:"exhaustive_within_bounds"`
}

func run() int {
	start := time.Now()
	id := *prop
	tier := 0
	if *tierF == "thorough" {
		tier = 1
	}
	verif := *verifDir
	evDir := filepath.Join(verif, "evidence")
	os.MkdirAll(filepath.Join(evDir, "replays"), 0o755)

	native := buildNative(verif)
	defer native.cleanup()

	p, linfo, err := interp.Load(filepath.Join(verif, "harness"), "./h", nil)
	if err != nil {
		fmt.Fprintln(os.Stderr, err)
		return inconclusive(id, "cannot load /repo + harness: "+firstLine(err.Error()))
	}
	var names []string
	if *harness != "" {
		names = []string{*harness}
		if id == "" {
			id = "DEV"
		}
	} else {
		names = p.HarnessNames("H_" + id + "_")
	}
	if len(names) == 0 {
		return inconclusive(id, "no harness functions")
	}
	meta := loadMeta(verif)
	known := loadKnown(verif)

	var (
		reports     []harnessReport
		allFindings []*interp.Finding
		problems    []string
		functions   = map[string]bool{}
		stubs       = map[string]int64{}
		assumptions = map[string]bool{}
		samples     []interface{}
		states, transitions, obligations, discharged int64
		validated   int64
		totalQ, totalSat, totalUnsat, totalUnknown int64
		solverTime  time.Duration
	)

	defBudget := 10 * time.Minute
	if tier == 1 {
		defBudget = 60 * time.Minute
	}
	if *budget != 0 {
		defBudget = *budget
	}
	deadline := start.Add(defBudget)

	for _, h := range names {
		m := meta[h]
		cfg := interp.Config{Harness: h, Tier: tier, Workers: *workers, SolverKind: *solverF, Trace: *trace, Deadline: deadline}
		if m.MaxSteps > 0 {
			cfg.MaxSteps = m.MaxSteps
		}
		if mp, ok := m.MaxPaths[*tierF]; ok {
			cfg.MaxPaths = mp
		}
		if *maxPaths > 0 {
			cfg.MaxPaths = *maxPaths
		}
		st, err := p.Explore(cfg)
		if err != nil {
			problems = append(problems, fmt.Sprintf("%s: %v", h, err))
			continue
		}
		rep := harnessReport{Name: h, Bounds: m.Bounds[*tierF], Outside: m.Outside, Paths: st.Paths, AssumedAway: st.AssumedAway, Decisions: st.Decisions, DomainDec: st.DomainDecided, PCChecks: st.PCChecks,
			Forks: st.Forks, Queries: st.Queries, Sat: st.Sat, Unsat: st.Unsat, Unknown: st.Unknown, SolverS: st.SolverTime.Seconds(), Steps: st.Steps,
			MaxPath: st.MaxPathSteps, Obligations: st.Obligations, Discharged: st.Discharged, Reach: st.Reach, BoundHits: st.BoundHits,
			Unsupported: st.Unsupported, Stubs: st.Stubs, FindingsRaw: st.FindingCount, WallS: st.Wall.Seconds(), MaxInputs: st.MaxInputs}
		rep.Exhaustive = !st.TimedOut && !st.PathBudgetHit && len(st.Unsupported) == 0 && len(st.EngineErrors) == 0 && st.Unknown == 0
		if rep.Bounds == "" {
			rep.Bounds = "(see harness source)"
		}
		reports = append(reports, rep)
		states += st.Paths
		transitions += st.Decisions + st.Forks
		obligations += st.Obligations
		discharged += st.Discharged
		totalQ += st.Queries
		totalSat += st.Sat
		totalUnsat += st.Unsat
		totalUnknown += st.Unknown
		solverTime += st.SolverTime
		for f := range st.Functions {
			functions[f] = true
		}
		for k, v := range st.Stubs {
			stubs[k] += v
		}
		for k := range st.Assumptions {
			assumptions[h+": "+k] = true
		}
		for _, a := range m.Assumes {
			assumptions[h+": "+a] = true
		}
		if *verbose {
			fmt.Fprintf(os.Stderr, "%s: paths=%d assumed-away=%d decisions=%d queries=%d (sat %d unsat %d unknown %d) solver=%.1fs steps=%d wall=%.1fs findings=%v\n",
				h, st.Paths, st.AssumedAway, st.Decisions, st.Queries, st.Sat, st.Unsat, st.Unknown, st.SolverTime.Seconds(), st.Steps, st.Wall.Seconds(), st.FindingCount)
			for k, v := range st.Unsupported {
				fmt.Fprintf(os.Stderr, "  unsupported ×%d: %s\n", v, k)
			}
			for k, v := range st.EngineErrors {
				fmt.Fprintf(os.Stderr, "  engine-error ×%d: %s\n", v, k)
			}
			for k, v := range st.BoundHits {
				fmt.Fprintf(os.Stderr, "  bound-hit ×%d: %s\n", v, k)
			}
			for k, v := range st.Reach {
				fmt.Fprintf(os.Stderr, "  reach ×%d: %s\n", v, k)
			}
		}
		// inconclusive conditions
		if st.TimedOut {
			problems = append(problems, h+": wall-clock budget exhausted before the path space was covered")
		}
		if st.PathBudgetHit {
			problems = append(problems, h+": path budget exhausted before the path space was covered")
		}
		for k, v := range st.Unsupported {
			problems = append(problems, fmt.Sprintf("%s: unsupported ×%d: %s", h, v, k))
		}
		for k, v := range st.EngineErrors {
			problems = append(problems, fmt.Sprintf("%s: engine error ×%d: %s", h, v, firstLine(k)))
		}
		for k, v := range st.BoundHits {
			hangOK := false
			for _, f := range st.Findings {
				if f.Label == "bound:"+k {
					hangOK = true
				}
			}
			if !hangOK {
				problems = append(problems, fmt.Sprintf("%s: bound hit ×%d: %s", h, v, k))
			}
		}
		if st.Unknown > 0 {
			problems = append(problems, fmt.Sprintf("%s: %d solver queries answered unknown", h, st.Unknown))
		}
		if len(st.SolverErrors) > 0 {
			problems = append(problems, fmt.Sprintf("%s: solver errors: %s", h, firstLine(st.SolverErrors[0])))
		}
		if st.Paths == 0 {
			problems = append(problems, h+": no feasible path completed (vacuous)")
		}
		if st.Obligations == 0 && !strings.Contains(h, "_np_") {
			// harnesses whose only oracle is a monitor are named *_np_*
			hasMonitor := false
			for l := range st.Reach {
				if strings.HasPrefix(l, "monitor:") {
					hasMonitor = true
				}
			}
			if !hasMonitor {
				problems = append(problems, h+": no assertion was evaluated on any path (vacuous)")
			}
		}
		for _, l := range m.Reach {
			if st.Reach[l] == 0 {
				problems = append(problems, fmt.Sprintf("%s: vacuity guard: label %q was not reached", h, l))
			}
		}
		// native validation of one witness per reach label
		if !*noNative {
			labels := make([]string, 0, len(st.ReachSample))
			for l := range st.ReachSample {
				labels = append(labels, l)
			}
			sort.Strings(labels)
			for _, l := range labels {
				vals := st.ReachSample[l]
				r, err := native.run(h, *tierF, vals)
				if err != nil {
					problems = append(problems, "native replay unavailable: "+firstLine(err.Error()))
					break
				}
				if strings.Contains(r.out, "REACHED "+l+"\n") {
					validated++
					if len(samples) < 8 {
						samples = append(samples, map[string]interface{}{"harness": h, "reach_label": l, "inputs": vals, "native": "reached"})
					}
				} else if !strings.Contains(r.out, "ASSERT-FAILED") && !strings.Contains(r.out, "PANIC") {
					problems = append(problems, fmt.Sprintf("%s: witness for label %q does not reach it natively (engine/native divergence)", h, l))
					if *verbose {
						fmt.Fprintf(os.Stderr, "  divergence model=%v\n  native output:\n%s\n", vals, r.out)
					}
				}
			}
		}
		allFindings = append(allFindings, st.Findings...)
	}

	// ---- findings: native replay and classification ----
	violations := 0
	knownMatched := map[string]bool{}
	var outLines []string
	seenLabel := map[string]int{}
	for _, f := range allFindings {
		if seenLabel[f.Harness+"|"+f.Label] >= 2 {
			continue
		}
		seenLabel[f.Harness+"|"+f.Label]++
		rf := replayFile{Property: id, Harness: f.Harness, Tier: *tierF, Label: f.Label, Kind: f.Kind, Msg: f.Msg, Values: f.Values, Decisions: f.Decisions, Stack: f.Stack}
		b, _ := json.MarshalIndent(rf, "", " ")
		sum := sha1.Sum([]byte(f.Harness + f.Label + fmt.Sprint(f.Values)))
		rpath := filepath.Join(evDir, "replays", fmt.Sprintf("%s-%x.json", id, sum[:5]))
		confirmed := false
		how := ""
		engineOnly := f.Kind == "maporder"
		if *noNative {
			confirmed, how = true, "native replay skipped (-nonative)"
		} else if engineOnly {
			confirmed, how = true, "engine-only observation (deterministic re-execution of the decision vector)"
		} else {
			tries := 1
			if f.MapOrder {
				// the real runtime cannot be forced into a map order: repeat until the order shows up
				tries = 400
			}
			var r *nativeResult
			var err error
			for t := 0; t < tries && !confirmed; t++ {
				r, err = native.run(f.Harness, *tierF, f.Values)
				if err != nil {
					break
				}
				confirmed = reproduced(f, r)
			}
			if err != nil {
				problems = append(problems, "native replay unavailable: "+firstLine(err.Error()))
				continue
			}
			how = "native replay"
			validated++
			if !confirmed {
				if *verbose {
					fmt.Fprintf(os.Stderr, "non-reproducing finding %s/%s values=%v\nnative output:\n%s\n", f.Harness, f.Label, f.Values, r.out)
				}
				problems = append(problems, fmt.Sprintf("%s: counterexample for %q does not reproduce natively (encoding or stub error; tainted=%v)", f.Harness, f.Label, f.Tainted))
				continue
			}
		}
		_ = how
		// known?
		isKnown := false
		for _, k := range known.Findings {
			if k.Property == id && k.Label == f.Label {
				isKnown = true
				if !knownMatched[k.Label] {
					knownMatched[k.Label] = true
					outLines = append(outLines, fmt.Sprintf("KNOWN-FINDING: property=%s %s [%s]", id, k.What, k.Label))
				}
			}
		}
		if isKnown {
			continue
		}
		os.WriteFile(rpath, b, 0o644)
		violations++
		outLines = append(outLines, fmt.Sprintf("VIOLATION property=%s replay=%s", id, rpath))
		if len(samples) < 12 {
			samples = append(samples, map[string]interface{}{"harness": f.Harness, "violation_label": f.Label, "kind": f.Kind, "msg": f.Msg, "inputs": f.Values})
		}
		if *verbose {
			fmt.Fprintf(os.Stderr, "VIOLATION %s %s [%s] %s\n  inputs=%v\n  stack=%v\n", f.Harness, f.Label, f.Kind, f.Msg, f.Values, f.Stack)
		}
	}

	// ---- evidence ----
	fnList := make([]string, 0, len(functions))
	pos := p.FuncPositions(functions)
	for f := range functions {
		if ps, ok := pos[f]; ok {
			fnList = append(fnList, f+" @ "+strings.TrimPrefix(ps, "/repo/"))
		} else {
			fnList = append(fnList, f)
		}
	}
	sort.Strings(fnList)
	var asm []string
	for a := range assumptions {
		asm = append(asm, a)
	}
	sort.Strings(asm)
	asm = append(asm,
		"trusted base: go/packages+go/ssa (x/tools v0.29.0), gosym interpreter and reflect model, listed stubs, "+*solverF+", Go toolchain used for native replay",
		"amd64 float->int conversion semantics; symbolic string bytes that are decoded as runes are ASCII (non-ASCII symbolic bytes end the path as unsupported = inconclusive)",
		"map iteration inside go-ucfg follows insertion order unless PermuteMaps is on (C09 owns the order quantifier)")
	if len(samples) == 0 {
		samples = append(samples, map[string]interface{}{"note": "no reach-label witness was recorded"})
	}
	var kn []string
	for l := range knownMatched {
		kn = append(kn, l)
	}
	sort.Strings(kn)
	if states == 0 {
		states = 0
	}
	ev := map[string]interface{}{
		"property_id": id,
		"tier":        *tierF,
		"seed":        seed(),
		"level":       "model_checking",
		"coverage": map[string]interface{}{
			"states":                        states,
			"transitions":                   transitions,
			"traces_validated_against_impl": validated,
			"samples":                       samples,
			"obligations":                   obligations,
			"discharged":                    discharged,
			"explanation":                   "states = feasible paths completed by bounded symbolic execution of the SSA of /repo's current working tree; transitions = edges of the explored decision tree (symbolic branch decisions settled by the solver or by the exact finite-domain tableau, plus the alternatives of structural choices); obligations = assertion sites x paths, discharged = those the solver proved (unsat of PC and not assert) within the stated bounds",
			"functions_encoded":             fnList,
			"stubs":                         stubs,
			"harnesses":                     reports,
			"queries":                       totalQ,
			"sat":                           totalSat,
			"unsat":                         totalUnsat,
			"unknown":                       totalUnknown,
			"solver":                        *solverF,
			"solver_time_s":                 solverTime.Seconds(),
			"known_findings_matched":        kn,
			"inconclusive_reasons":          problems,
			"load":                          map[string]interface{}{"load_s": linfo.LoadTime.Seconds(), "ssa_build_s": linfo.BuildTime.Seconds(), "packages": linfo.Packages, "go_ucfg_functions": linfo.UcfgFuncs},
			"exhaustive":                    len(problems) == 0,
		},
		"assumptions": asm,
		"wall_s":      time.Since(start).Seconds(),
		"violations":  violations,
	}
	if *prop != "" {
		b, _ := json.MarshalIndent(ev, "", " ")
		os.WriteFile(filepath.Join(evDir, id+".json"), b, 0o644)
	}

	for _, l := range outLines {
		fmt.Println(l)
	}
	if violations > 0 {
		return 1
	}
	if len(problems) > 0 {
		for _, pr := range problems {
			fmt.Printf("INCONCLUSIVE property=%s %s\n", id, pr)
		}
		return 2
	}
	fmt.Printf("OK property=%s tier=%s harnesses=%d paths=%d decisions=%d obligations=%d/%d queries=%d solver=%.1fs wall=%.1fs\n",
		id, *tierF, len(names), states, transitions, discharged, obligations, totalQ, solverTime.Seconds(), time.Since(start).Seconds())
	return 0
}

func firstLine(s string) string {
	if i := strings.IndexByte(s, '\n'); i >= 0 {
		return s[:i]
	}
	return s
}

func doReplay(path string) int {
	b, err := os.ReadFile(path)
	if err != nil {
		fmt.Fprintln(os.Stderr, err)
		return 2
	}
	var rf replayFile
	if err := json.Unmarshal(b, &rf); err != nil {
		fmt.Fprintln(os.Stderr, err)
		return 2
	}
	native := buildNative(*verifDir)
	defer native.cleanup()
	r, err := native.run(rf.Harness, rf.Tier, rf.Values)
	if err != nil {
		fmt.Fprintln(os.Stderr, err)
		return 2
	}
	fmt.Printf("harness=%s label=%s kind=%s\ninputs=%v\n--- native run (exit %d, killed=%v) ---\n%s\n", rf.Harness, rf.Label, rf.Kind, rf.Values, r.exit, r.killed, r.out)
	f := &interp.Finding{Harness: rf.Harness, Label: rf.Label, Kind: rf.Kind}
	if reproduced(f, r) {
		fmt.Printf("VIOLATION property=%s replay=%s\n", rf.Property, path)
		return 1
	}
	fmt.Println("not reproduced")
	return 0
}

// doConf runs conformance functions natively and inside the engine (concrete mode) and compares the digests.
func doConf(list string) int {
	verif := *verifDir
	native := buildNative(verif)
	defer native.cleanup()
	p, _, err := interp.Load(filepath.Join(verif, "harness"), "./h", nil)
	if err != nil {
		fmt.Fprintln(os.Stderr, err)
		return 2
	}
	var names []string
	if list == "all" {
		for _, n := range p.HarnessNames("Conf_") {
			names = append(names, strings.TrimPrefix(n, "Conf_"))
		}
		names = append(names, p.HarnessNames("Native_")...)
	} else {
		names = strings.Split(list, ",")
	}
	<-native.ready
	if native.err != nil {
		fmt.Fprintln(os.Stderr, native.err)
		return 2
	}
	bad := 0
	for _, n := range names {
		out, err := exec.Command(native.bin, "conf", n).CombinedOutput()
		if err != nil {
			fmt.Printf("CONF %s: native run failed: %v\n%s\n", n, err, out)
			bad++
			continue
		}
		nat := strings.TrimSuffix(strings.TrimPrefix(string(out), "=== "+n+"\n"), "\n")
		if strings.HasPrefix(n, "Native_") {
			// native-only validation (e.g. decoder contracts against the real decoders)
			if strings.HasPrefix(nat, "OK") {
				fmt.Printf("CONF %s: %s\n", n, firstLine(nat))
			} else {
				fmt.Printf("CONF %s: FAILED\n%s\n", n, nat)
				bad++
			}
			continue
		}
		eng, err := p.RunConcrete("Conf_"+n, *trace)
		if err != nil {
			fmt.Printf("CONF %s: %v\n", n, err)
			bad++
			continue
		}
		if nat == eng {
			fmt.Printf("CONF %s: ok (%d lines)\n", n, strings.Count(nat, "\n")+1)
			continue
		}
		bad++
		nl, el := strings.Split(nat, "\n"), strings.Split(eng, "\n")
		shown := 0
		for i := 0; i < len(nl) || i < len(el); i++ {
			var a, b string
			if i < len(nl) {
				a = nl[i]
			}
			if i < len(el) {
				b = el[i]
			}
			if a != b && shown < 8 {
				fmt.Printf("CONF %s: line %d differs\n  native: %s\n  engine: %s\n", n, i+1, a, b)
				shown++
			}
		}
	}
	if bad > 0 {
		fmt.Printf("CONF FAILED: %d of %d functions differ\n", bad, len(names))
		return 2
	}
	fmt.Printf("CONF OK: %d functions identical natively and in the engine\n", len(names))
	return 0
}
