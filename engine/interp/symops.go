package interp

// Operations on symbolic scalars and symbolic strings.

import (
	"fmt"
	"go/token"
	"go/types"
	"math"
	"strings"
)

func kindSort(k types.BasicKind) Sort {
	switch k {
	case types.Bool, types.UntypedBool:
		return SBool
	case types.Int8, types.Uint8:
		return SBV8
	case types.Int16, types.Uint16:
		return SBV16
	case types.Int32, types.Uint32, types.UntypedRune:
		return SBV32
	case types.Int, types.Int64, types.Uint, types.Uint64, types.Uintptr, types.UntypedInt:
		return SBV64
	case types.Float32:
		return SF32
	case types.Float64, types.UntypedFloat:
		return SF64
	}
	panic(fmt.Sprintf("kindSort(%v)", k))
}

func kindSigned(k types.BasicKind) bool {
	switch k {
	case types.Int, types.Int8, types.Int16, types.Int32, types.Int64, types.UntypedInt, types.UntypedRune:
		return true
	}
	return false
}

func kindIsInt(k types.BasicKind) bool {
	switch k {
	case types.Int, types.Int8, types.Int16, types.Int32, types.Int64,
		types.Uint, types.Uint8, types.Uint16, types.Uint32, types.Uint64, types.Uintptr:
		return true
	}
	return false
}

func kindIsFloat(k types.BasicKind) bool { return k == types.Float32 || k == types.Float64 }

func mkSymBool(t *Term) value {
	if t.isConst() {
		return t.k != 0
	}
	return sym{types.Bool, t}
}

// mkSym wraps a term as a value of kind k, folding constants back to native
// Go scalars so that concrete data stays concrete.
func mkSym(k types.BasicKind, t *Term) value {
	if !t.isConst() {
		return sym{k, t}
	}
	return constToValue(k, t.k)
}

func constToValue(k types.BasicKind, bits uint64) value {
	switch k {
	case types.Bool:
		return bits != 0
	case types.Int:
		return int(int64(bits))
	case types.Int8:
		return int8(bits)
	case types.Int16:
		return int16(bits)
	case types.Int32:
		return int32(bits)
	case types.Int64:
		return int64(bits)
	case types.Uint:
		return uint(bits)
	case types.Uint8:
		return uint8(bits)
	case types.Uint16:
		return uint16(bits)
	case types.Uint32:
		return uint32(bits)
	case types.Uint64:
		return bits
	case types.Uintptr:
		return uintptr(bits)
	case types.Float32:
		return math.Float32frombits(uint32(bits))
	case types.Float64:
		return math.Float64frombits(bits)
	}
	panic(fmt.Sprintf("constToValue(%v)", k))
}

// termOf converts a scalar value (concrete or symbolic) to a term and its kind.
func termOf(v value) (*Term, types.BasicKind) {
	switch v := v.(type) {
	case sym:
		return v.t, v.k
	case bool:
		return mkBool(v), types.Bool
	case int:
		return mkConst(SBV64, uint64(v)), types.Int
	case int8:
		return mkConst(SBV8, uint64(v)), types.Int8
	case int16:
		return mkConst(SBV16, uint64(v)), types.Int16
	case int32:
		return mkConst(SBV32, uint64(v)), types.Int32
	case int64:
		return mkConst(SBV64, uint64(v)), types.Int64
	case uint:
		return mkConst(SBV64, uint64(v)), types.Uint
	case uint8:
		return mkConst(SBV8, uint64(v)), types.Uint8
	case uint16:
		return mkConst(SBV16, uint64(v)), types.Uint16
	case uint32:
		return mkConst(SBV32, uint64(v)), types.Uint32
	case uint64:
		return mkConst(SBV64, v), types.Uint64
	case uintptr:
		return mkConst(SBV64, uint64(v)), types.Uintptr
	case float32:
		return mkConst(SF32, uint64(math.Float32bits(v))), types.Float32
	case float64:
		return mkConst(SF64, math.Float64bits(v)), types.Float64
	}
	panic(fmt.Sprintf("termOf(%T)", v))
}

func isScalar(v value) bool {
	switch v.(type) {
	case sym, bool, int, int8, int16, int32, int64, uint, uint8, uint16, uint32, uint64, uintptr, float32, float64:
		return true
	}
	return false
}

// symEq builds x == y for scalars at least one of which is symbolic.
func symEq(x, y value) value {
	tx, kx := termOf(x)
	ty, _ := termOf(y)
	if kindIsFloat(kx) {
		return mkSymBool(tFCmp(OpFEq, tx, ty))
	}
	return mkSymBool(tEq(tx, ty))
}

// ---- strings ----

// mkString builds a string value from bytes (byte or sym{Uint8}); all-concrete
// byte sequences become host strings.
func mkString(b []value) value {
	allc := true
	for _, x := range b {
		if _, ok := x.(byte); !ok {
			allc = false
			break
		}
	}
	if allc {
		var sb strings.Builder
		sb.Grow(len(b))
		for _, x := range b {
			sb.WriteByte(x.(byte))
		}
		return sb.String()
	}
	return symstr{append([]value(nil), b...)}
}

// opaqueStr is text whose content the engine does not know: the rendering of
// a symbolic number (fmt, strconv.Format*, Duration.String). It can be stored,
// passed around and concatenated; any inspection of its content or length
// ends the path as "unsupported" (reported as INCONCLUSIVE), so nothing is
// ever concluded from a made-up rendering.
type opaqueStr struct {
	why      string
	nonEmpty bool // known to contain at least one character
}

func opaqueAbort(o opaqueStr) {
	panic(pathAbort{abUnsupported, "inspection of opaque text (" + o.why + ")"})
}

func strBytes(s value) []value {
	switch s := s.(type) {
	case opaqueStr:
		opaqueAbort(s)
	case string:
		out := make([]value, len(s))
		for i := 0; i < len(s); i++ {
			out[i] = s[i]
		}
		return out
	case symstr:
		return s.b
	}
	panic(fmt.Sprintf("strBytes(%T)", s))
}

func strLen(s value) int {
	switch s := s.(type) {
	case opaqueStr:
		opaqueAbort(s)
	case string:
		return len(s)
	case symstr:
		return len(s.b)
	}
	panic(fmt.Sprintf("strLen(%T)", s))
}

func isStr(v value) bool {
	switch v.(type) {
	case string, symstr, opaqueStr:
		return true
	}
	return false
}

func strConcat(a, b value) value {
	oa, aop := a.(opaqueStr)
	ob, bop := b.(opaqueStr)
	if aop || bop {
		ne := func(v value, o opaqueStr, isOp bool) bool {
			if isOp {
				return o.nonEmpty
			}
			switch s := v.(type) {
			case string:
				return len(s) > 0
			case symstr:
				return len(s.b) > 0
			}
			return false
		}
		why := oa.why
		if !aop {
			why = ob.why
		}
		return opaqueStr{why: why, nonEmpty: ne(a, oa, aop) || ne(b, ob, bop)}
	}
	if as, ok := a.(string); ok {
		if bs, ok := b.(string); ok {
			return as + bs
		}
	}
	ab, bb := strBytes(a), strBytes(b)
	out := make([]value, 0, len(ab)+len(bb))
	out = append(out, ab...)
	out = append(out, bb...)
	return mkString(out)
}

func strSlice(s value, lo, hi int) value {
	switch s := s.(type) {
	case opaqueStr:
		opaqueAbort(s)
	case string:
		return s[lo:hi]
	case symstr:
		return mkString(s.b[lo:hi])
	}
	panic("strSlice")
}

func byteTerm(b value) *Term {
	t, _ := termOf(b)
	return t
}

// strEq builds a == b for strings at least one of which is symbolic.
func strEq(a, b value) value {
	if o, ok := a.(opaqueStr); ok && o.nonEmpty {
		if s, ok := b.(string); ok && s == "" {
			return false
		}
	}
	if o, ok := b.(opaqueStr); ok && o.nonEmpty {
		if s, ok := a.(string); ok && s == "" {
			return false
		}
	}
	ab, bb := strBytes(a), strBytes(b)
	if len(ab) != len(bb) {
		return false
	}
	r := tTrue
	for i := range ab {
		r = tAnd(r, tEq(byteTerm(ab[i]), byteTerm(bb[i])))
		if r.isConst() && r.k == 0 {
			return false
		}
	}
	return mkSymBool(r)
}

// strLess builds a < b (lexicographic by bytes).
func strLess(a, b value) value {
	ab, bb := strBytes(a), strBytes(b)
	n := len(ab)
	if len(bb) < n {
		n = len(bb)
	}
	// from the end: less_i = a[i]<b[i] || (a[i]==b[i] && less_{i+1}); less_n = len(a)<len(b)
	r := mkBool(len(ab) < len(bb))
	for i := n - 1; i >= 0; i-- {
		x, y := byteTerm(ab[i]), byteTerm(bb[i])
		r = tOr(tBVCmp(OpBVULt, x, y), tAnd(tEq(x, y), r))
	}
	return mkSymBool(r)
}

func symstrDebug(s symstr) string {
	var sb strings.Builder
	sb.WriteByte('"')
	for _, x := range s.b {
		if c, ok := x.(byte); ok {
			sb.WriteString(strings.Trim(fmt.Sprintf("%q", string(rune(c))), "\""))
		} else {
			sb.WriteString("‹" + x.(sym).t.String() + "›")
		}
	}
	sb.WriteByte('"')
	return sb.String()
}

func bNot(v value) value {
	if b, ok := v.(bool); ok {
		return !b
	}
	return mkSymBool(tNot(v.(sym).t))
}

// ---- binary operators on symbolic scalars ----

func symBinop(fr *frame, op token.Token, x, y value) value {
	// strings
	if isStr(x) || isStr(y) {
		switch op {
		case token.ADD:
			return strConcat(x, y)
		case token.EQL:
			return strEq(x, y)
		case token.NEQ:
			return bNot(strEq(x, y))
		case token.LSS:
			return strLess(x, y)
		case token.GTR:
			return strLess(y, x)
		case token.LEQ:
			return bNot(strLess(y, x))
		case token.GEQ:
			return bNot(strLess(x, y))
		}
		panic(fmt.Sprintf("symBinop: string op %s", op))
	}
	tx, kx := termOf(x)
	ty, ky := termOf(y)
	w := fr.i.w

	if op == token.SHL || op == token.SHR {
		if kindSigned(ky) {
			neg := tBVCmp(OpBVSLt, ty, mkConst(ty.sort, 0))
			if w.branch(neg) {
				panic(runtimeError("negative shift amount"))
			}
		}
		xs := tx.sort
		width := uint64(xs.width())
		var big *Term // shift count >= width
		var cnt *Term
		if ty.sort.width() > xs.width() {
			big = tBVCmp(OpBVULe, mkConst(ty.sort, width), ty)
			cnt = tExtract(ty, int(xs.width())-1, 0)
		} else {
			cnt = tZeroExt(ty, xs)
			big = tFalse // SMT shifts already saturate for counts >= width
		}
		var r, sat *Term
		switch {
		case op == token.SHL:
			r, sat = tBV(OpBVShl, tx, cnt), mkConst(xs, 0)
		case kindSigned(kx):
			r = tBV(OpBVAShr, tx, cnt)
			sat = tBV(OpBVAShr, tx, mkConst(xs, width-1))
		default:
			r, sat = tBV(OpBVLShr, tx, cnt), mkConst(xs, 0)
		}
		return mkSym(kx, tIte(big, sat, r))
	}

	k := kx
	if _, ok := x.(sym); !ok {
		k = ky
	}
	if kx != ky {
		// untyped constants on one side adopt the other side's kind
		if _, ok := x.(sym); ok {
			ty = coerceTerm(ty, ky, kx)
			k = kx
		} else {
			tx = coerceTerm(tx, kx, ky)
			k = ky
		}
	}

	if k == types.Bool {
		switch op {
		case token.EQL:
			return mkSymBool(tEq(tx, ty))
		case token.NEQ:
			return mkSymBool(tNot(tEq(tx, ty)))
		case token.AND, token.LAND:
			return mkSymBool(tAnd(tx, ty))
		case token.OR, token.LOR:
			return mkSymBool(tOr(tx, ty))
		}
		panic(fmt.Sprintf("symBinop: bool op %s", op))
	}

	if kindIsFloat(k) {
		switch op {
		case token.ADD:
			return mkSym(k, tFArith(OpFAdd, tx, ty))
		case token.SUB:
			return mkSym(k, tFArith(OpFSub, tx, ty))
		case token.MUL:
			return mkSym(k, tFArith(OpFMul, tx, ty))
		case token.QUO:
			return mkSym(k, tFArith(OpFDiv, tx, ty))
		case token.EQL:
			return mkSymBool(tFCmp(OpFEq, tx, ty))
		case token.NEQ:
			return mkSymBool(tNot(tFCmp(OpFEq, tx, ty)))
		case token.LSS:
			return mkSymBool(tFCmp(OpFLt, tx, ty))
		case token.LEQ:
			return mkSymBool(tFCmp(OpFLe, tx, ty))
		case token.GTR:
			return mkSymBool(tFCmp(OpFLt, ty, tx))
		case token.GEQ:
			return mkSymBool(tFCmp(OpFLe, ty, tx))
		}
		panic(fmt.Sprintf("symBinop: float op %s", op))
	}

	signed := kindSigned(k)
	switch op {
	case token.ADD:
		return mkSym(k, tBV(OpBVAdd, tx, ty))
	case token.SUB:
		return mkSym(k, tBV(OpBVSub, tx, ty))
	case token.MUL:
		return mkSym(k, tBV(OpBVMul, tx, ty))
	case token.QUO, token.REM:
		if w.branch(tEq(ty, mkConst(ty.sort, 0))) {
			panic(runtimeError("integer divide by zero"))
		}
		var o Op
		switch {
		case op == token.QUO && signed:
			o = OpBVSDiv
		case op == token.QUO:
			o = OpBVUDiv
		case signed:
			o = OpBVSRem
		default:
			o = OpBVURem
		}
		return mkSym(k, tBV(o, tx, ty))
	case token.AND:
		return mkSym(k, tBV(OpBVAnd, tx, ty))
	case token.OR:
		return mkSym(k, tBV(OpBVOr, tx, ty))
	case token.XOR:
		return mkSym(k, tBV(OpBVXor, tx, ty))
	case token.AND_NOT:
		return mkSym(k, tBV(OpBVAnd, tx, tBVNot(ty)))
	case token.EQL:
		return mkSymBool(tEq(tx, ty))
	case token.NEQ:
		return mkSymBool(tNot(tEq(tx, ty)))
	case token.LSS:
		if signed {
			return mkSymBool(tBVCmp(OpBVSLt, tx, ty))
		}
		return mkSymBool(tBVCmp(OpBVULt, tx, ty))
	case token.LEQ:
		if signed {
			return mkSymBool(tBVCmp(OpBVSLe, tx, ty))
		}
		return mkSymBool(tBVCmp(OpBVULe, tx, ty))
	case token.GTR:
		if signed {
			return mkSymBool(tBVCmp(OpBVSLt, ty, tx))
		}
		return mkSymBool(tBVCmp(OpBVULt, ty, tx))
	case token.GEQ:
		if signed {
			return mkSymBool(tBVCmp(OpBVSLe, ty, tx))
		}
		return mkSymBool(tBVCmp(OpBVULe, ty, tx))
	}
	panic(fmt.Sprintf("symBinop: int op %s", op))
}

// coerceTerm converts a constant term of kind from to kind to (same category).
func coerceTerm(t *Term, from, to types.BasicKind) *Term {
	fs, ts := kindSort(from), kindSort(to)
	if fs == ts {
		return t
	}
	return symConvTerm(t, from, to)
}

func symUnop(op token.Token, x sym) value {
	switch op {
	case token.SUB:
		if kindIsFloat(x.k) {
			return mkSym(x.k, tFNeg(x.t))
		}
		return mkSym(x.k, tBVNeg(x.t))
	case token.NOT:
		return mkSymBool(tNot(x.t))
	case token.XOR:
		return mkSym(x.k, tBVNot(x.t))
	}
	panic(fmt.Sprintf("symUnop %s", op))
}

// symConvTerm converts between numeric kinds.
func symConvTerm(t *Term, from, to types.BasicKind) *Term {
	ts := kindSort(to)
	switch {
	case kindIsInt(from) && kindIsInt(to):
		return tResize(t, ts, kindSigned(from))
	case kindIsInt(from) && kindIsFloat(to):
		return tIntToF(t, kindSigned(from), ts)
	case kindIsFloat(from) && kindIsInt(to):
		return tFToInt(t, ts, kindSigned(to))
	case kindIsFloat(from) && kindIsFloat(to):
		return tFToF(t, ts)
	case from == types.Bool && to == types.Bool:
		return t
	}
	panic(fmt.Sprintf("symConvTerm %v -> %v", from, to))
}

func basicKindOf(t types.Type) (types.BasicKind, bool) {
	b, ok := t.Underlying().(*types.Basic)
	if !ok {
		return 0, false
	}
	k := b.Kind()
	switch k {
	case types.UntypedInt:
		k = types.Int
	case types.UntypedFloat:
		k = types.Float64
	case types.UntypedRune:
		k = types.Int32
	case types.UntypedBool:
		k = types.Bool
	}
	return k, true
}
