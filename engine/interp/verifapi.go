package interp

// Intrinsics for the harness-side package vharness/verif: nondeterministic
// inputs, assumptions, assertions, vacuity guards, monitors and non-forking
// combinators. The same package has native bodies used for replay.

import (
	"fmt"
	"go/types"
	"strings"

	"golang.org/x/tools/go/ssa"
)

const verifPkg = "vharness/verif."

func init() {
	in := func(k types.BasicKind) externalFn {
		return func(fr *frame, args []value) value {
			return fr.i.w.newInput(concreteStr(fr, args[0], "verif input name"), k)
		}
	}
	for k, v := range map[string]externalFn{
		"Bool":    in(types.Bool),
		"Int":     in(types.Int),
		"Int8":    in(types.Int8),
		"Int16":   in(types.Int16),
		"Int32":   in(types.Int32),
		"Int64":   in(types.Int64),
		"Uint":    in(types.Uint),
		"Uint8":   in(types.Uint8),
		"Uint16":  in(types.Uint16),
		"Uint32":  in(types.Uint32),
		"Uint64":  in(types.Uint64),
		"Float32": in(types.Float32),
		"Float64": in(types.Float64),
		"Byte":    in(types.Uint8),
		"Bytes":   verifBytes,
		"Choice":  verifChoice,
		"Assume":  verifAssume,
		"Assert":  verifAssert,
		"Reach":   verifReach,
		"Tier":    func(fr *frame, args []value) value { return fr.i.w.tier },
		"Symbolic": func(fr *frame, args []value) value { return fr.i.w.ex.cfg.Concrete == nil },
		"NoPanic": verifNoPanic,
		"AllocLimit": func(fr *frame, args []value) value {
			fr.i.w.allocLimit = asInt64(fr.i.w.concrete(args[0]))
			return nil
		},
		"Disjoint":      verifDisjoint,
		"ReadOnlyBegin": verifReadOnlyBegin,
		"ReadOnlyEnd": func(fr *frame, args []value) value {
			fr.i.w.roActive = false
			return nil
		},
		"PermuteMaps": func(fr *frame, args []value) value {
			if fr.i.w.truth(args[0]) {
				fr.i.w.permute = 1
			} else {
				fr.i.w.permute = 0
			}
			return nil
		},
		"ScheduleEager": func(fr *frame, args []value) value {
			fr.i.w.schedEager = fr.i.w.truth(args[0])
			return nil
		},
		"ScheduleAll": func(fr *frame, args []value) value {
			fr.i.w.schedAll = fr.i.w.truth(args[0])
			return nil
		},
		"PermuteOneMap": func(fr *frame, args []value) value {
			// exactly one of the following map iterations gets a non-canonical order
			fr.i.w.permute = 2
			fr.i.w.permDone = false
			return nil
		},
		"Eq":      func(fr *frame, args []value) value { return deepEq(fr.i.w, args[0], args[1], true) },
		"And":     func(fr *frame, args []value) value { return bAnd(args[0], args[1]) },
		"Or":      func(fr *frame, args []value) value { return bNot(bAnd(bNot(args[0]), bNot(args[1]))) },
		"Implies": func(fr *frame, args []value) value { return bNot(bAnd(args[0], bNot(args[1]))) },
		"Not":     func(fr *frame, args []value) value { return bNot(args[0]) },
		"IsNaN": func(fr *frame, args []value) value { return ext۰math۰IsNaN(fr, args) },
		"IteInt64":   verifIte,
		"IteUint64":  verifIte,
		"IteFloat64": verifIte,
		"IteBool":    verifIte,
		"IteInt":     verifIte,
		"Note": func(fr *frame, args []value) value { return nil },
		"Taint": func(fr *frame, args []value) value { fr.i.w.tainted = true; return nil },
		"Concretize": func(fr *frame, args []value) value {
			itf := args[0].(iface)
			return iface{t: itf.t, v: fr.i.w.concrete(itf.v)}
		},
		"SymStr": func(fr *frame, args []value) value {
			_, ok := args[0].(symstr)
			return ok
		},
		"IsSym": func(fr *frame, args []value) value {
			return isSymbolic(args[0])
		},
		// DecoderResult registers what the next call of the named decoder
		// ("yaml", "json", "hjson") stores into its target: the harness builds the
		// decoder-shaped value from the decoder's contract (validated natively
		// against the real decoder by the conformance suite).
		"DecoderResult": func(fr *frame, args []value) value {
			w := fr.i.w
			if w.decoderResults == nil {
				w.decoderResults = map[string]value{}
			}
			w.decoderResults[concreteStr(fr, args[0], "decoder name")] = args[1]
			return nil
		},
		// TextBytes converts document text to []byte for a decoder call. Text that
		// contains the rendering of a symbolic number is opaque; the bytes are then a
		// poisoned slice that only a (stubbed) decoder may receive.
		"TextBytes": func(fr *frame, args []value) value {
			if o, ok := args[0].(opaqueStr); ok {
				return []value{o}
			}
			return append([]value(nil), strBytes(args[0])...)
		},
		// VirtualFile registers the content ReadFile returns for a name.
		"VirtualFile": func(fr *frame, args []value) value {
			w := fr.i.w
			if w.files == nil {
				w.files = map[string]value{}
			}
			w.files[concreteStr(fr, args[0], "file name")] = args[1]
			return args[0]
		},
	} {
		externals[verifPkg+k] = v
	}
}

func decoderStub(name string) externalFn {
	return func(fr *frame, args []value) value {
		w := fr.i.w
		res, ok := w.decoderResults[name]
		if !ok {
			w.unsupported("call of the " + name + " decoder without a registered contract result (the decoder itself cannot be encoded)")
		}
		w.stub(name + ".Unmarshal: contract stub (result built by the harness from the decoder's documented output types)")
		target := args[1].(iface)
		p, isPtr := target.v.(*value)
		if !isPtr || p == nil {
			w.unsupported(name + ".Unmarshal into a non-pointer target")
		}
		*p = res
		return iface{}
	}
}

func readFileStub(fr *frame, args []value) value {
	w := fr.i.w
	name := concreteStr(fr, args[0], "file name")
	content, ok := w.files[name]
	if !ok {
		return tuple{[]value(nil), mkError(fr, "open "+name+": no such file or directory")}
	}
	w.stub("ReadFile: virtual file registered by the harness")
	if o, ok := content.(opaqueStr); ok {
		return tuple{[]value{o}, iface{}}
	}
	return tuple{append([]value(nil), strBytes(content)...), iface{}}
}

func init() {
	externals["gopkg.in/yaml.v2.Unmarshal"] = decoderStub("yaml")
	externals["encoding/json.Unmarshal"] = decoderStub("json")
	externals["gopkg.in/hjson/hjson-go.v3.Unmarshal"] = decoderStub("hjson")
	externals["io/ioutil.ReadFile"] = readFileStub
	externals["os.ReadFile"] = readFileStub
}

func verifIte(fr *frame, args []value) value {
	c := args[0]
	if b, ok := c.(bool); ok {
		if b {
			return args[1]
		}
		return args[2]
	}
	ta, k := termOf(args[1])
	tb, _ := termOf(args[2])
	return mkSym(k, tIte(c.(sym).t, ta, tb))
}

func verifBytes(fr *frame, args []value) value {
	name := concreteStr(fr, args[0], "verif.Bytes name")
	n := int(asInt64(fr.i.w.concrete(args[1])))
	b := make([]value, n)
	for i := range b {
		b[i] = fr.i.w.newInput(fmt.Sprintf("%s[%d]", name, i), types.Uint8)
	}
	return mkString(b)
}

func verifChoice(fr *frame, args []value) value {
	name := concreteStr(fr, args[0], "verif.Choice name")
	n := int(asInt64(fr.i.w.concrete(args[1])))
	return fr.i.w.newChoice(name, n)
}

func verifAssume(fr *frame, args []value) value {
	w := fr.i.w
	pos := ""
	if fr.caller != nil {
		pos = fr.caller.fn.Name()
	}
	w.st.Assumptions["Assume in "+pos]++
	w.assume(args[0], "assume")
	return nil
}

func verifAssert(fr *frame, args []value) value {
	label := concreteStr(fr, args[1], "verif.Assert label")
	fr.i.w.assertCond(args[0], label, fr.caller)
	return nil
}

func verifReach(fr *frame, args []value) value {
	fr.i.w.reach(concreteStr(fr, args[0], "verif.Reach label"))
	return nil
}

// verifNoPanic(label, f): a panic escaping f is a finding.
func verifNoPanic(fr *frame, args []value) value {
	label := concreteStr(fr, args[0], "verif.NoPanic label")
	w := fr.i.w
	panicked := false
	func() {
		defer func() {
			if r := recover(); r != nil {
				if isEngineAbort(r) {
					panic(r)
				}
				switch r.(type) {
				case targetPanic, runtimeError:
					panicked = true
					w.finding(label, "panic", panicMessage(w, r), fr.caller)
				default:
					panic(r)
				}
			}
		}()
		call(fr.i, fr, 0, args[1], nil)
	}()
	return !panicked
}

func verifReadOnlyBegin(fr *frame, args []value) value {
	w := fr.i.w
	w.roLabel = concreteStr(fr, args[0], "verif.ReadOnlyBegin label")
	w.roCells = map[*value]bool{}
	w.roMaps = map[*omap]bool{}
	seen := map[*value]bool{}
	for _, r := range args[1].([]value) {
		collectReachable(r, w.roCells, w.roMaps, seen)
	}
	// package-level state of go-ucfg packages
	for g, cell := range fr.i.globals {
		if g.Pkg != nil && isUcfgPath(g.Pkg.Pkg.Path()) {
			collectReachable(cell, w.roCells, w.roMaps, seen)
		}
	}
	w.roActive = true
	return nil
}

// deepEq compares two values structurally (like reflect.DeepEqual). With
// loose set, nil and empty slices/maps are equal. The result is a bool or a
// symbolic bool; nothing forks.
func deepEq(w *worker, a, b value, loose bool) value {
	type pair struct{ a, b *value }
	visited := map[pair]bool{}
	var eq func(a, b value) value
	eq = func(a, b value) value {
		switch x := a.(type) {
		case iface:
			y, ok := b.(iface)
			if !ok {
				return false
			}
			if x.t == nil || y.t == nil {
				if loose {
					return emptyish(x) && emptyish(y)
				}
				return x.t == nil && y.t == nil
			}
			if !sameType(x.t, y.t) {
				return false
			}
			return eq(x.v, y.v)
		case *value:
			y, ok := b.(*value)
			if !ok {
				return false
			}
			if x == nil || y == nil {
				return x == y
			}
			if x == y {
				return true
			}
			if visited[pair{x, y}] {
				return true
			}
			visited[pair{x, y}] = true
			return eq(*x, *y)
		case structure:
			y, ok := b.(structure)
			if !ok || len(x) != len(y) {
				return false
			}
			var r value = true
			for i := range x {
				r = bAnd(r, eq(x[i], y[i]))
				if r == false {
					return false
				}
			}
			return r
		case array:
			y, ok := b.(array)
			if !ok || len(x) != len(y) {
				return false
			}
			var r value = true
			for i := range x {
				r = bAnd(r, eq(x[i], y[i]))
				if r == false {
					return false
				}
			}
			return r
		case []value:
			y, ok := b.([]value)
			if !ok {
				return false
			}
			if !loose && (x == nil) != (y == nil) {
				return false
			}
			if len(x) != len(y) {
				return false
			}
			var r value = true
			for i := range x {
				r = bAnd(r, eq(x[i], y[i]))
				if r == false {
					return false
				}
			}
			return r
		case *omap:
			y, ok := b.(*omap)
			if !ok {
				return false
			}
			if !loose && (x == nil) != (y == nil) {
				return false
			}
			if x.len() != y.len() {
				return false
			}
			var r value = true
			for _, e := range x.liveEntries(nil) {
				if isSymbolic(e.k) {
					w.unsupported("deep comparison of maps with symbolic keys")
				}
				yv, ok := y.lookup(w, e.k)
				if !ok {
					return false
				}
				r = bAnd(r, eq(e.v, yv))
				if r == false {
					return false
				}
			}
			return r
		case string, symstr, opaqueStr:
			if !isStr(b) {
				return false
			}
			return equals(w, types.Typ[types.String], a, b)
		case sym, bool, int, int8, int16, int32, int64, uint, uint8, uint16, uint32, uint64, uintptr, float32, float64:
			if !isScalar(b) {
				return false
			}
			_, ka := termOf(a)
			_, kb := termOf(b)
			if ka != kb {
				return false
			}
			return equals(w, nil, a, b)
		case rtype:
			y, ok := b.(rtype)
			return ok && types.Identical(x.t, y.t)
		case hostObj:
			y, ok := b.(hostObj)
			return ok && fmt.Sprint(x.v) == fmt.Sprint(y.v)
		case *ssa.Function:
			y, ok := b.(*ssa.Function)
			return ok && x == nil && y == nil
		case nil:
			return b == nil
		}
		w.unsupported(fmt.Sprintf("deep comparison of %T", a))
		return false
	}
	return eq(a, b)
}

func emptyish(x iface) bool {
	if x.t == nil {
		return true
	}
	switch v := x.v.(type) {
	case []value:
		return len(v) == 0
	case *omap:
		return v.len() == 0
	}
	return false
}

var _ = strings.Contains
