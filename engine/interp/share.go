package interp

// verif.Disjoint: structural "share no state" oracle. A typed walk over everything
// reachable from two roots records the identity of every piece of mutable storage
// (pointer targets, slice backing arrays, maps); storage reachable from both roots is
// a finding, unless it is reached through a type the harness declares immutable by
// design (shared on purpose, never written: checked separately by the write monitor).

import (
	"fmt"
	"go/types"
)

type shareWalk struct {
	ptrs   map[*value]string
	slices map[*value]string
	maps   map[*omap]string
	exempt map[string]bool
}

func shortTypeString(t types.Type) string {
	return types.TypeString(t, func(p *types.Package) string { return p.Name() })
}

func (s *shareWalk) walk(t types.Type, v value, path string, depth int) {
	if v == nil || depth > 400 {
		return
	}
	if t == nil {
		return
	}
	if isOpaqueNamed(t) {
		return
	}
	if s.exempt[shortTypeString(t)] {
		return
	}
	switch u := t.Underlying().(type) {
	case *types.Pointer:
		p, ok := v.(*value)
		if !ok || p == nil {
			return
		}
		if _, seen := s.ptrs[p]; seen {
			return
		}
		s.ptrs[p] = path
		s.walk(u.Elem(), *p, path+"->", depth+1)
	case *types.Struct:
		st, ok := v.(structure)
		if !ok {
			return
		}
		for i := 0; i < u.NumFields() && i < len(st); i++ {
			s.walk(u.Field(i).Type(), st[i], path+"."+u.Field(i).Name(), depth+1)
		}
	case *types.Array:
		arr, ok := v.(array)
		if !ok {
			return
		}
		for i := range arr {
			s.walk(u.Elem(), arr[i], fmt.Sprintf("%s[%d]", path, i), depth+1)
		}
	case *types.Slice:
		sl, ok := v.([]value)
		if !ok {
			return
		}
		full := sl[:cap(sl)]
		if len(full) == 0 {
			return
		}
		// identity: the last cell of the backing array (the same for every slice of it)
		id := &full[len(full)-1]
		if _, seen := s.slices[id]; !seen {
			s.slices[id] = path
		}
		for i := range sl {
			s.walk(u.Elem(), sl[i], fmt.Sprintf("%s[%d]", path, i), depth+1)
		}
	case *types.Map:
		m, ok := v.(*omap)
		if !ok || m == nil {
			return
		}
		if _, seen := s.maps[m]; seen {
			return
		}
		s.maps[m] = path
		for i := range m.ents {
			if !m.ents[i].deleted {
				s.walk(u.Key(), m.ents[i].k, path+"{key}", depth+1)
				s.walk(u.Elem(), m.ents[i].v, path+"{}", depth+1)
			}
		}
	case *types.Interface:
		i, ok := v.(iface)
		if !ok || i.t == nil {
			return
		}
		s.walk(i.t, i.v, path+"("+shortTypeString(i.t)+")", depth+1)
	case *types.Signature:
		c, ok := v.(*closure)
		if !ok || c == nil {
			return
		}
		for i, e := range c.Env {
			if i < len(c.Fn.FreeVars) {
				s.walk(c.Fn.FreeVars[i].Type(), e, path+".closure", depth+1)
			}
		}
	}
}

func verifDisjoint(fr *frame, args []value) value {
	w := fr.i.w
	label := concreteStr(fr, args[0], "verif.Disjoint label")
	exempt := map[string]bool{}
	if l, ok := args[3].([]value); ok {
		for _, e := range l {
			exempt[concreteStr(fr, e, "verif.Disjoint exemption")] = true
		}
	}
	side := func(v value) *shareWalk {
		s := &shareWalk{ptrs: map[*value]string{}, slices: map[*value]string{}, maps: map[*omap]string{}, exempt: exempt}
		if i, ok := v.(iface); ok && i.t != nil {
			s.walk(i.t, i.v, "root", 0)
		}
		return s
	}
	a, b := side(args[1]), side(args[2])
	shared := ""
	for p, pa := range a.ptrs {
		if pb, ok := b.ptrs[p]; ok && (shared == "" || pa < shared) {
			shared = pa + " == " + pb
		}
	}
	for p, pa := range a.slices {
		if pb, ok := b.slices[p]; ok && (shared == "" || pa < shared) {
			shared = pa + "[] == " + pb + "[]"
		}
	}
	for p, pa := range a.maps {
		if pb, ok := b.maps[p]; ok && (shared == "" || pa < shared) {
			shared = pa + "{} == " + pb + "{}"
		}
	}
	w.st.Obligations++
	if shared != "" {
		w.finding(label, "share", "mutable storage reachable from both sides: "+shared, fr.caller)
		return false
	}
	w.st.Discharged++
	return true
}
