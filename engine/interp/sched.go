package interp

// Deterministic cooperative goroutines and channels. Each interpreted
// goroutine runs on its own host goroutine, but only the holder of the baton
// executes; a goroutine runs until it blocks, then the lowest-numbered ready
// goroutine continues. The run is therefore a pure function of the decision
// vector. At harness end every other goroutine is run until it finishes or
// blocks for good; goroutines still blocked then are reported as leaked.

import (
	"fmt"
	"go/token"
	"go/types"

	"golang.org/x/tools/go/ssa"
)

type gor struct {
	id      int
	wake    chan struct{}
	exited  chan struct{}
	done    bool
	started bool
	ready   func() bool // nil = runnable
	what    string
}

type sched struct {
	w     *worker
	gs    []*gor
	cur   *gor
	dead  bool
	abort *pathAbort
	finishing bool
}

func newSched() *sched {
	s := &sched{}
	main := &gor{id: 0, wake: make(chan struct{}, 1), exited: make(chan struct{}), started: true}
	s.gs = []*gor{main}
	s.cur = main
	return s
}

func (s *sched) spawn(i *interpreter, pos token.Pos, fn value, args []value) {
	g := &gor{id: len(s.gs), wake: make(chan struct{}, 1), exited: make(chan struct{})}
	s.gs = append(s.gs, g)
	go func() {
		defer close(g.exited)
		<-g.wake
		g.started = true
		if s.dead {
			g.done = true
			return
		}
		defer func() {
			g.done = true
			r := recover()
			switch r := r.(type) {
			case nil, killG:
			case pathAbort:
				if s.abort == nil {
					ab := r
					s.abort = &ab
				}
				s.dead = true
			default:
				// uncaught target panic in a goroutine: fatal for the program
				msg := panicMessage(i.w, r)
				func() {
					defer func() { recover() }()
					i.w.finding("goroutine-panic", "panic", msg, nil)
				}()
				if s.abort == nil {
					s.abort = &pathAbort{abTarget, "panic in goroutine"}
				}
				s.dead = true
			}
			if s.dead {
				// wake main so that it can unwind (only if we held the baton)
				if s.cur == g && !s.gs[0].done {
					s.cur = s.gs[0]
					s.gs[0].wake <- struct{}{}
				}
				return
			}
			// normal exit: pass the baton on
			s.passOn(i.w, g)
		}()
		call(i, nil, pos, fn, args)
	}()
}

// pick returns the next goroutine to run other than self (nil if none is ready).
// With schedule exploration on, which ready goroutine continues is a decision.
func (s *sched) pick(self *gor) *gor {
	var ready []*gor
	for _, g := range s.gs {
		if g == self || g.done {
			continue
		}
		if g.ready == nil || g.ready() {
			ready = append(ready, g)
		}
	}
	if len(ready) == 0 {
		return nil
	}
	if s.w != nil && s.w.schedAll && len(ready) > 1 && !s.finishing && !s.dead {
		return ready[s.w.choose(len(ready))]
	}
	return ready[0]
}

// yieldPoint is called before every channel operation: under schedule
// exploration any other ready goroutine may run first (the interleavings of
// goroutines that communicate only through channels are determined by the
// order of their channel operations).
func (s *sched) yieldPoint(w *worker) {
	if !(w.schedAll || w.schedEager) || s.dead || s.finishing || len(s.gs) < 2 {
		return
	}
	self := s.cur
	var others []*gor
	for _, g := range s.gs {
		if g != self && !g.done && (g.ready == nil || g.ready()) {
			others = append(others, g)
		}
	}
	if len(others) == 0 {
		return
	}
	var next *gor
	if w.schedEager {
		// deterministic "always yield" policy: the next ready goroutine in round-robin order
		next = others[0]
		for _, g := range others {
			if g.id > self.id {
				next = g
				break
			}
		}
	} else {
		k := w.choose(len(others) + 1)
		if k == 0 {
			return
		}
		next = others[k-1]
	}
	self.ready = nil
	s.cur = next
	next.wake <- struct{}{}
	<-self.wake
	if s.dead {
		panic(killG{})
	}
}

// passOn is called by a goroutine that is finished: somebody else must run.
func (s *sched) passOn(w *worker, self *gor) {
	next := s.pick(self)
	if next == nil {
		// everybody else is blocked: deadlock (main is among them, since main only
		// finishes through finish()).
		s.abort = &pathAbort{abTarget, "deadlock"}
		func() {
			defer func() { recover() }()
			w.finding("deadlock", "deadlock", "all goroutines are blocked", nil)
		}()
		s.dead = true
		next = s.gs[0]
	}
	s.cur = next
	next.wake <- struct{}{}
}

// block suspends the current goroutine until ready() holds.
func (s *sched) block(w *worker, ready func() bool, what string) {
	self := s.cur
	for !ready() {
		// (registered before picking: while main waits in finish(), its readiness depends on
		// whether this goroutine can still run)
		self.ready = ready
		self.what = what
		next := s.pick(self)
		if next == nil {
			if self.id == 0 && s.finishing {
				self.ready = nil
				return
			}
			w.finding("deadlock", "deadlock", "all goroutines are blocked ("+what+")", nil)
			w.abort(abTarget, "deadlock")
		}
		s.cur = next
		next.wake <- struct{}{}
		<-self.wake
		self.ready = nil
		if s.dead {
			panic(killG{})
		}
	}
}

// finish runs the remaining goroutines until each has finished or is blocked for good.
func (s *sched) finish(w *worker) {
	if len(s.gs) == 1 {
		return
	}
	s.finishing = true
	main := s.gs[0]
	for {
		next := s.pick(main)
		if next == nil {
			break
		}
		// main becomes ready again as soon as nobody else is
		main.ready = func() bool { return s.pick(main) == nil }
		s.cur = next
		next.wake <- struct{}{}
		<-main.wake
		main.ready = nil
		if s.dead {
			panic(killG{})
		}
	}
	s.cur = main
	var leaked []string
	for _, g := range s.gs[1:] {
		if !g.done {
			leaked = append(leaked, fmt.Sprintf("goroutine %d blocked on %s", g.id, g.what))
		}
	}
	if len(leaked) > 0 {
		w.finding("goroutine-leak", "leak", fmt.Sprint(leaked), nil)
	}
}

// killAll terminates every goroutine that has not finished (after the path ended).
func (s *sched) killAll() {
	s.dead = true
	s.gs[0].done = true
	for _, g := range s.gs[1:] {
		if !g.done {
			select {
			case g.wake <- struct{}{}:
			default:
			}
		}
	}
	for _, g := range s.gs[1:] {
		<-g.exited
	}
}

// ---- channels ----

type chanV struct {
	cap    int
	buf    []value
	closed bool
	// rendezvous for unbuffered channels
	slot     value
	slotFull bool
	taken    bool
}

func chanSend(fr *frame, c *chanV, v value) {
	w := fr.i.w
	s := fr.i.sched
	s.yieldPoint(w)
	if c == nil {
		s.block(w, func() bool { return false }, "send on nil channel")
	}
	if c.closed {
		panic(targetPanicString(fr, "send on closed channel"))
	}
	if c.cap > 0 {
		s.block(w, func() bool { return len(c.buf) < c.cap || c.closed }, "chan send")
		if c.closed {
			panic(targetPanicString(fr, "send on closed channel"))
		}
		c.buf = append(c.buf, v)
		return
	}
	s.block(w, func() bool { return !c.slotFull || c.closed }, "chan send")
	if c.closed {
		panic(targetPanicString(fr, "send on closed channel"))
	}
	c.slot, c.slotFull, c.taken = v, true, false
	s.block(w, func() bool { return c.taken || c.closed }, "chan send (rendezvous)")
	c.taken = false
}

func chanReady(c *chanV) bool {
	return c != nil && (len(c.buf) > 0 || c.slotFull || c.closed)
}

func chanTake(c *chanV) (value, bool) {
	if len(c.buf) > 0 {
		v := c.buf[0]
		c.buf = c.buf[1:]
		return v, true
	}
	if c.slotFull {
		v := c.slot
		c.slot, c.slotFull, c.taken = nil, false, true
		return v, true
	}
	return nil, false // closed
}

func chanRecv(fr *frame, c *chanV) (value, bool) {
	w := fr.i.w
	s := fr.i.sched
	s.yieldPoint(w)
	if c == nil {
		s.block(w, func() bool { return false }, "receive from nil channel")
	}
	s.block(w, func() bool { return chanReady(c) }, "chan receive")
	return chanTake(c)
}

func chanClose(fr *frame, c *chanV) {
	fr.i.sched.yieldPoint(fr.i.w)
	if c == nil {
		panic(targetPanicString(fr, "close of nil channel"))
	}
	if c.closed {
		panic(targetPanicString(fr, "close of closed channel"))
	}
	c.closed = true
}

func targetPanicString(fr *frame, msg string) interface{} {
	return runtimeError(msg)
}

// doSelect implements ssa.Select deterministically: the first ready case in
// source order is taken.
func doSelect(fr *frame, instr *ssa.Select) value {
	w := fr.i.w
	s := fr.i.sched
	s.yieldPoint(w)
	type cs struct {
		c    *chanV
		send bool
		v    value
	}
	var cases []cs
	for _, st := range instr.States {
		c := fr.get(st.Chan).(*chanV)
		if st.Dir == types.RecvOnly {
			cases = append(cases, cs{c: c})
		} else {
			cases = append(cases, cs{c: c, send: true, v: fr.get(st.Send)})
		}
	}
	readyIdx := func() int {
		for i, c := range cases {
			if c.c == nil {
				continue
			}
			if c.send {
				if c.c.closed || (c.c.cap > 0 && len(c.c.buf) < c.c.cap) || (c.c.cap == 0 && !c.c.slotFull) {
					return i
				}
			} else if chanReady(c.c) {
				return i
			}
		}
		return -1
	}
	chosen := readyIdx()
	if chosen < 0 && instr.Blocking {
		s.block(w, func() bool { return readyIdx() >= 0 }, "select")
		chosen = readyIdx()
	}
	var recv value
	recvOk := false
	if chosen >= 0 {
		c := cases[chosen]
		if c.send {
			chanSend(fr, c.c, c.v)
		} else {
			recv, recvOk = chanTake(c.c)
		}
	}
	r := tuple{chosen, recvOk}
	for i, st := range instr.States {
		if st.Dir == types.RecvOnly {
			var v value
			if i == chosen && recvOk {
				v = recv
			} else {
				v = zero(st.Chan.Type().Underlying().(*types.Chan).Elem())
			}
			r = append(r, v)
		}
	}
	return r
}
