package interp

// Exact finite-domain reasoning for constraints over small input variables
// (bytes and bools). Byte-string harnesses produce almost only conditions
// that are boolean combinations of single-byte atoms ("s[2] == '['",
// "'0' <= s[1] <= '9'", s == "null"). The path condition restricted to small
// variables is kept as per-variable domains (bitsets) plus a list of
// multi-variable constraints; a query is decided by a tableau search over
// these, which is sound and complete. Anything involving a wider variable,
// an atom over two variables, or a search that exceeds its budget is left
// to the SMT solver (GOSYM_DOMCHECK=1 cross-checks every tableau verdict
// against the SMT solver).

import "os"

var domCheck = os.Getenv("GOSYM_DOMCHECK") != ""

type domain struct {
	bits [4]uint64
}

func (d *domain) has(x uint) bool { return d.bits[x>>6]&(1<<(x&63)) != 0 }
func (d *domain) set(x uint)      { d.bits[x>>6] |= 1 << (x & 63) }
func (d *domain) empty() bool     { return d.bits[0]|d.bits[1]|d.bits[2]|d.bits[3] == 0 }
func (d *domain) first() uint {
	for x := uint(0); x < 256; x++ {
		if d.has(x) {
			return x
		}
	}
	return 0
}

func fullDomain(v *Term) *domain {
	d := &domain{}
	n := uint(256)
	if v.sort == SBool {
		n = 2
	}
	for x := uint(0); x < n; x++ {
		d.set(x)
	}
	return d
}

// smallVar returns the single small variable c depends on, if any.
func smallVar(c *Term) *Term {
	if c.many || c.wide {
		return nil
	}
	v := c.sup
	if c.op == OpVar {
		v = c
	}
	if v == nil || (v.sort != SBV8 && v.sort != SBool) {
		return nil
	}
	return v
}

type lit struct {
	t   *Term
	pos bool
}

type tableau struct {
	w      *worker
	budget int
	fail   bool // gave up (not a verdict)
	e      evalCtx
}

type domSet map[*Term]*domain

func (ds domSet) get(w *worker, v *Term) *domain {
	if d, ok := ds[v]; ok {
		return d
	}
	if d, ok := w.dom[v]; ok {
		return d
	}
	return fullDomain(v)
}

// restrict narrows v's domain to the values on which t has the given polarity.
func (tb *tableau) restrict(ds domSet, t, v *Term, pos bool) bool {
	d := ds.get(tb.w, v)
	nd := &domain{}
	n := uint(256)
	if v.sort == SBool {
		n = 2
	}
	any := false
	for x := uint(0); x < n; x++ {
		if !d.has(x) {
			continue
		}
		tb.e.vals[v] = uint64(x)
		if t.cnt > 200 {
			tb.e.memo = map[*Term]uint64{}
		}
		if (tb.e.eval(t) != 0) == pos {
			nd.set(x)
			any = true
		}
	}
	if !tb.e.ok {
		tb.fail = true
		return false
	}
	ds[v] = nd
	return any
}

func cloneDS(ds domSet) domSet {
	n := make(domSet, len(ds)+2)
	for k, v := range ds {
		n[k] = v
	}
	return n
}

// solve reports whether the agenda is satisfiable under ds (ds is narrowed to a witness region).
func (tb *tableau) solve(agenda []lit, ds domSet) bool {
	for len(agenda) > 0 {
		tb.budget--
		if tb.budget < 0 {
			tb.fail = true
			return false
		}
		l := agenda[len(agenda)-1]
		agenda = agenda[:len(agenda)-1]
		t := l.t
		if t.op == OpConst {
			if (t.k != 0) != l.pos {
				return false
			}
			continue
		}
		if t.wide {
			tb.fail = true
			return false
		}
		if v := smallVar(t); v != nil {
			if !tb.restrict(ds, t, v, l.pos) {
				return false
			}
			continue
		}
		switch {
		case t.op == OpNot:
			agenda = append(agenda, lit{t.a[0], !l.pos})
		case (t.op == OpAnd && l.pos) || (t.op == OpOr && !l.pos):
			agenda = append(agenda, lit{t.a[0], l.pos}, lit{t.a[1], l.pos})
		case (t.op == OpOr && l.pos) || (t.op == OpAnd && !l.pos):
			for i := 0; i < 2; i++ {
				na := append(append([]lit(nil), agenda...), lit{t.a[i], l.pos})
				nds := cloneDS(ds)
				if tb.solve(na, nds) {
					for k, v := range nds {
						ds[k] = v
					}
					return true
				}
				if tb.fail {
					return false
				}
			}
			return false
		case t.op == OpIte && t.sort == SBool:
			// (c ∧ a) ∨ (¬c ∧ b), with the literal's polarity applied to a / b
			for i := 0; i < 2; i++ {
				na := append(append([]lit(nil), agenda...), lit{t.a[0], i == 0}, lit{t.a[1+i], l.pos})
				nds := cloneDS(ds)
				if tb.solve(na, nds) {
					for k, v := range nds {
						ds[k] = v
					}
					return true
				}
				if tb.fail {
					return false
				}
			}
			return false
		case t.op == OpEq && t.a[0].sort == SBool:
			// a == b  (pos):  (a ∧ b) ∨ (¬a ∧ ¬b);  neg: (a ∧ ¬b) ∨ (¬a ∧ b)
			for i := 0; i < 2; i++ {
				na := append(append([]lit(nil), agenda...), lit{t.a[0], i == 0}, lit{t.a[1], (i == 0) == l.pos})
				nds := cloneDS(ds)
				if tb.solve(na, nds) {
					for k, v := range nds {
						ds[k] = v
					}
					return true
				}
				if tb.fail {
					return false
				}
			}
			return false
		default:
			// an atom over several variables (e.g. s[0] == s[1]): not handled here
			tb.fail = true
			return false
		}
	}
	return true
}

// cspDecide decides satisfiability of (small-variable part of PC) ∧ extra. ok is
// false when the tableau does not apply; then the SMT solver decides.
func (w *worker) cspDecide(extra lit) (sat bool, ok bool) {
	if extra.t.wide || w.smallTainted {
		return false, false
	}
	tb := &tableau{w: w, budget: 4000, e: evalCtx{vals: map[*Term]uint64{}, ok: true}}
	agenda := make([]lit, 0, len(w.csp)+1)
	for _, c := range w.csp {
		agenda = append(agenda, lit{c, true})
	}
	agenda = append(agenda, extra)
	ds := domSet{}
	sat = tb.solve(agenda, ds)
	if tb.fail {
		return false, false
	}
	w.st.DomainDecided++
	if domCheck {
		t := extra.t
		if !extra.pos {
			t = tNot(t)
		}
		r := w.solver.Check(t)
		if (r == Sat) != sat && r != Unknown {
			w.engineError("finite-domain verdict disagrees with the SMT solver on " + t.String())
		}
	}
	if sat {
		w.witness = ds
	}
	return sat, true
}

// domainDecide decides both sides of c.
func (w *worker) domainDecide(c *Term) (canT, canF, ok bool) {
	canT, ok = w.cspDecide(lit{c, true})
	if !ok {
		return false, false, false
	}
	canF, ok = w.cspDecide(lit{c, false})
	if !ok {
		return false, false, false
	}
	return canT, canF, true
}

// noteConstraint records an asserted term.
func (w *worker) noteConstraint(t *Term) {
	if t.sup == nil && !t.many && t.op != OpVar {
		return // no variables
	}
	if t.wide {
		if t.many {
			// mixes wide and possibly small variables: the small-variable
			// abstraction is no longer the whole truth about those variables
			if mentionsSmall(t, map[*Term]bool{}) {
				w.smallTainted = true
			}
		}
		return
	}
	if v := smallVar(t); v != nil {
		tb := &tableau{w: w, budget: 1 << 30, e: evalCtx{vals: map[*Term]uint64{}, ok: true}}
		ds := domSet{}
		if tb.restrict(ds, t, v, true) || !tb.fail {
			if d, ok := ds[v]; ok {
				w.dom[v] = d
				if cur, has := w.cmodel[v]; !d.empty() && (!has || !d.has(uint(cur))) {
					// the cached model leaves the domain: move it, but only if no other
					// constraint can be broken by doing so
					switch {
					case w.smallTainted:
						w.modelOK = false
					case len(w.csp) == 0:
						w.cmodel[v] = uint64(d.first())
					default:
						w.repairSmallModel()
					}
				}
			}
		} else {
			w.smallTainted = true
		}
		return
	}
	// several small variables
	if t.op == OpAnd {
		w.noteConstraint(t.a[0])
		w.noteConstraint(t.a[1])
		return
	}
	w.csp = append(w.csp, t)
	if w.smallTainted {
		return // addPC re-validates the cached model against t itself
	}
	w.repairSmallModel()
}

// repairSmallModel replaces the small-variable part of the cached model by a
// witness of all domains and multi-variable small constraints. Only valid
// while no constraint mixes small and wide variables.
func (w *worker) repairSmallModel() {
	if sat, ok := w.cspDecide(lit{tTrue, true}); ok && sat {
		for v, d := range w.witness {
			if !d.empty() {
				w.cmodel[v] = uint64(d.first())
			}
		}
		for v, d := range w.dom {
			if _, inW := w.witness[v]; !inW && !d.empty() {
				if cur, has := w.cmodel[v]; !has || !d.has(uint(cur)) {
					w.cmodel[v] = uint64(d.first())
				}
			}
		}
		return
	}
	w.modelOK = false
}

func mentionsSmall(t *Term, seen map[*Term]bool) bool {
	if seen[t] {
		return false
	}
	seen[t] = true
	if t.op == OpVar {
		return t.sort == SBV8 || t.sort == SBool
	}
	for _, c := range t.a {
		if mentionsSmall(c, seen) {
			return true
		}
	}
	return false
}
