package interp

// SMT term layer: bit-vectors with Go's wrap-around semantics, IEEE floats,
// booleans. Terms are immutable DAG nodes; constructors fold constants and
// apply a few local simplifications so that concrete data never reaches the
// solver.

import (
	"fmt"
	"math"
	"math/bits"
	"strings"
	"sync"
)

type Sort uint8

const (
	SBool Sort = iota
	SBV8
	SBV16
	SBV32
	SBV64
	SF32
	SF64
)

func (s Sort) width() uint {
	switch s {
	case SBool:
		return 1
	case SBV8:
		return 8
	case SBV16:
		return 16
	case SBV32, SF32:
		return 32
	case SBV64, SF64:
		return 64
	}
	panic("width")
}

func (s Sort) isBV() bool    { return s >= SBV8 && s <= SBV64 }
func (s Sort) isFloat() bool { return s == SF32 || s == SF64 }

func (s Sort) smt() string {
	switch s {
	case SBool:
		return "Bool"
	case SBV8:
		return "(_ BitVec 8)"
	case SBV16:
		return "(_ BitVec 16)"
	case SBV32:
		return "(_ BitVec 32)"
	case SBV64:
		return "(_ BitVec 64)"
	case SF32:
		return "(_ FloatingPoint 8 24)"
	case SF64:
		return "(_ FloatingPoint 11 53)"
	}
	panic("sort")
}

func bvSort(w uint) Sort {
	switch w {
	case 8:
		return SBV8
	case 16:
		return SBV16
	case 32:
		return SBV32
	case 64:
		return SBV64
	}
	panic(fmt.Sprintf("bvSort(%d)", w))
}

type Op uint8

const (
	OpConst Op = iota
	OpVar
	// bool
	OpNot
	OpAnd
	OpOr
	OpEq // any sort (floats: bit equality is NOT used; see OpFEq)
	OpIte
	// bv arithmetic
	OpBVAdd
	OpBVSub
	OpBVMul
	OpBVUDiv
	OpBVSDiv
	OpBVURem
	OpBVSRem
	OpBVAnd
	OpBVOr
	OpBVXor
	OpBVNot
	OpBVNeg
	OpBVShl
	OpBVLShr
	OpBVAShr
	OpBVULt
	OpBVULe
	OpBVSLt
	OpBVSLe
	OpExtract // p1=hi p2=lo
	OpZeroExt // to sort
	OpSignExt // to sort
	// float
	OpFAdd
	OpFSub
	OpFMul
	OpFDiv
	OpFNeg
	OpFLt
	OpFLe
	OpFEq   // IEEE equality (NaN != NaN, +0 == -0)
	OpFIsNaN
	OpFIsInf
	OpFToF    // float -> float (RNE)
	OpSToF    // signed bv -> float (RNE)
	OpUToF    // unsigned bv -> float (RNE)
	OpFToSBV  // float -> signed bv, RTZ (unspecified when out of range; callers guard)
	OpFToUBV  // float -> unsigned bv, RTZ
	OpFFromBits // bv -> float (reinterpret)
)

type Term struct {
	op   Op
	sort Sort
	a    []*Term
	k    uint64 // OpConst: bits (bool: 0/1; float: IEEE bits)
	name string // OpVar
	p1   int
	p2   int
	id   int32
	cnt  int32 // approximate DAG size
	sup  *Term // the single input variable the term depends on (nil: none or several)
	many bool  // depends on several input variables
	fp   bool  // contains floating-point operations
	wide bool  // depends on an input variable wider than a byte
}

func (t *Term) setSupport() {
	if t.sort.isFloat() && t.op != OpVar && t.op != OpConst {
		t.fp = true
	}
	for _, c := range t.a {
		if c.wide || (c.op == OpVar && c.sort != SBV8 && c.sort != SBool) {
			t.wide = true
		}
	}
	for _, c := range t.a {
		if c.fp || (c.sort.isFloat() && c.op != OpConst) {
			t.fp = true
		}
	}
	for _, c := range t.a {
		var cs *Term
		switch {
		case c.many:
			t.many, t.sup = true, nil
			return
		case c.op == OpVar:
			cs = c
		default:
			cs = c.sup
		}
		if cs == nil {
			continue
		}
		if t.sup == nil {
			t.sup = cs
		} else if t.sup != cs {
			t.many, t.sup = true, nil
			return
		}
	}
}

var termIDs int32

func (t *Term) isConst() bool { return t.op == OpConst }

func mask(w uint) uint64 {
	if w >= 64 {
		return ^uint64(0)
	}
	return (uint64(1) << w) - 1
}

func sext(v uint64, w uint) int64 {
	if w >= 64 {
		return int64(v)
	}
	sh := 64 - w
	return int64(v<<sh) >> sh
}

func mkConst(s Sort, k uint64) *Term {
	if s != SBool {
		k &= mask(s.width())
	} else if k != 0 {
		return tTrue
	} else {
		return tFalse
	}
	return intern(&Term{op: OpConst, sort: s, k: k})
}

// ---- hash-consing (an optimisation only: structurally equal terms become
// pointer-equal, so the local simplifications and the solver see sharing) ----

type tkey struct {
	op         Op
	sort       Sort
	k          uint64
	p1, p2     int
	a0, a1, a2 *Term
	name       string
}

var (
	internMu  sync.Mutex
	internTab = make(map[tkey]*Term, 1<<16)
	// epochMu is read-locked for the duration of every path; the table is only
	// replaced under the write lock, i.e. while no path is executing, so that
	// within one path structural equality and pointer equality coincide (the
	// exploration relies on that for deterministic re-execution).
	epochMu sync.RWMutex
)

const internLimit = 1 << 21

func internBeginPath() { epochMu.RLock() }

func internEndPath() {
	epochMu.RUnlock()
	internMu.Lock()
	big := len(internTab) > internLimit
	internMu.Unlock()
	if big {
		epochMu.Lock()
		internMu.Lock()
		if len(internTab) > internLimit {
			internTab = make(map[tkey]*Term, 1<<16)
		}
		internMu.Unlock()
		epochMu.Unlock()
	}
}

func intern(t *Term) *Term {
	if len(t.a) > 3 {
		return t
	}
	k := tkey{op: t.op, sort: t.sort, k: t.k, p1: t.p1, p2: t.p2, name: t.name}
	switch len(t.a) {
	case 3:
		k.a2 = t.a[2]
		fallthrough
	case 2:
		k.a1 = t.a[1]
		fallthrough
	case 1:
		k.a0 = t.a[0]
	}
	internMu.Lock()
	if old, ok := internTab[k]; ok {
		internMu.Unlock()
		return old
	}
	internTab[k] = t
	internMu.Unlock()
	return t
}

var (
	tTrue  = &Term{op: OpConst, sort: SBool, k: 1}
	tFalse = &Term{op: OpConst, sort: SBool, k: 0}
)

func mkBool(b bool) *Term {
	if b {
		return tTrue
	}
	return tFalse
}

func mkVar(s Sort, name string) *Term {
	return intern(&Term{op: OpVar, sort: s, name: name, cnt: 1})
}

func mk(op Op, s Sort, a ...*Term) *Term {
	c := int32(1)
	for _, x := range a {
		c += x.cnt
		if c < 0 {
			c = math.MaxInt32
		}
	}
	t := &Term{op: op, sort: s, a: a, cnt: c}
	t.setSupport()
	return intern(t)
}

// ---- boolean constructors ----

func tNot(a *Term) *Term {
	if a.isConst() {
		return mkBool(a.k == 0)
	}
	if a.op == OpNot {
		return a.a[0]
	}
	return mk(OpNot, SBool, a)
}

func tAnd(a, b *Term) *Term {
	if a.isConst() {
		if a.k == 0 {
			return tFalse
		}
		return b
	}
	if b.isConst() {
		if b.k == 0 {
			return tFalse
		}
		return a
	}
	if a == b {
		return a
	}
	return mk(OpAnd, SBool, a, b)
}

func tOr(a, b *Term) *Term {
	if a.isConst() {
		if a.k != 0 {
			return tTrue
		}
		return b
	}
	if b.isConst() {
		if b.k != 0 {
			return tTrue
		}
		return a
	}
	if a == b {
		return a
	}
	return mk(OpOr, SBool, a, b)
}

func tImplies(a, b *Term) *Term { return tOr(tNot(a), b) }

func tIte(c, a, b *Term) *Term {
	if c.isConst() {
		if c.k != 0 {
			return a
		}
		return b
	}
	if a == b {
		return a
	}
	if a.isConst() && b.isConst() && a.sort == b.sort && a.k == b.k {
		return a
	}
	if a.sort == SBool {
		if a.isConst() && b.isConst() {
			if a.k != 0 {
				return c
			}
			return tNot(c)
		}
	}
	return mk(OpIte, a.sort, c, a, b)
}

// tEq is structural equality of the SMT values (for floats use tFEq for Go's ==).
func tEq(a, b *Term) *Term {
	if a.sort != b.sort {
		panic(fmt.Sprintf("tEq sort mismatch %v %v", a.sort, b.sort))
	}
	if a.isConst() && b.isConst() {
		return mkBool(a.k == b.k)
	}
	if a == b {
		return tTrue
	}
	if a.sort == SBool {
		if a.isConst() {
			if a.k != 0 {
				return b
			}
			return tNot(b)
		}
		if b.isConst() {
			if b.k != 0 {
				return a
			}
			return tNot(a)
		}
	}
	return mk(OpEq, SBool, a, b)
}

// ---- bit-vector constructors ----

func foldBV(op Op, w uint, x, y uint64) (uint64, bool) {
	m := mask(w)
	switch op {
	case OpBVAdd:
		return (x + y) & m, true
	case OpBVSub:
		return (x - y) & m, true
	case OpBVMul:
		return (x * y) & m, true
	case OpBVAnd:
		return x & y, true
	case OpBVOr:
		return x | y, true
	case OpBVXor:
		return x ^ y, true
	case OpBVUDiv:
		if y == 0 {
			return m, true
		}
		return x / y, true
	case OpBVURem:
		if y == 0 {
			return x, true
		}
		return x % y, true
	case OpBVSDiv:
		sx, sy := sext(x, w), sext(y, w)
		if sy == 0 {
			if sx < 0 {
				return 1, true
			}
			return m, true
		}
		if sy == -1 {
			return uint64(-sx) & m, true
		}
		return uint64(sx/sy) & m, true
	case OpBVSRem:
		sx, sy := sext(x, w), sext(y, w)
		if sy == 0 {
			return x, true
		}
		if sy == -1 {
			return 0, true
		}
		return uint64(sx%sy) & m, true
	case OpBVShl:
		if y >= uint64(w) {
			return 0, true
		}
		return (x << y) & m, true
	case OpBVLShr:
		if y >= uint64(w) {
			return 0, true
		}
		return x >> y, true
	case OpBVAShr:
		sx := sext(x, w)
		if y >= uint64(w) {
			y = uint64(w) - 1
		}
		return uint64(sx>>y) & m, true
	}
	return 0, false
}

func tBV(op Op, a, b *Term) *Term {
	if a.sort != b.sort || !a.sort.isBV() {
		panic(fmt.Sprintf("tBV sort mismatch op=%d %v %v", op, a.sort, b.sort))
	}
	w := a.sort.width()
	if a.isConst() && b.isConst() {
		if r, ok := foldBV(op, w, a.k, b.k); ok {
			return mkConst(a.sort, r)
		}
	}
	switch op {
	case OpBVAdd, OpBVOr, OpBVXor:
		if a.isConst() && a.k == 0 {
			return b
		}
		if b.isConst() && b.k == 0 {
			return a
		}
	case OpBVSub, OpBVShl, OpBVLShr, OpBVAShr:
		if b.isConst() && b.k == 0 {
			return a
		}
	case OpBVMul:
		if a.isConst() && a.k == 1 {
			return b
		}
		if b.isConst() && b.k == 1 {
			return a
		}
		if (a.isConst() && a.k == 0) || (b.isConst() && b.k == 0) {
			return mkConst(a.sort, 0)
		}
	case OpBVAnd:
		if (a.isConst() && a.k == 0) || (b.isConst() && b.k == 0) {
			return mkConst(a.sort, 0)
		}
		if a.isConst() && a.k == mask(w) {
			return b
		}
		if b.isConst() && b.k == mask(w) {
			return a
		}
	}
	return mk(op, a.sort, a, b)
}

func tBVCmp(op Op, a, b *Term) *Term {
	if a.sort != b.sort || !a.sort.isBV() {
		panic(fmt.Sprintf("tBVCmp sort mismatch %v %v", a.sort, b.sort))
	}
	w := a.sort.width()
	if a.isConst() && b.isConst() {
		switch op {
		case OpBVULt:
			return mkBool(a.k < b.k)
		case OpBVULe:
			return mkBool(a.k <= b.k)
		case OpBVSLt:
			return mkBool(sext(a.k, w) < sext(b.k, w))
		case OpBVSLe:
			return mkBool(sext(a.k, w) <= sext(b.k, w))
		}
	}
	if a == b {
		return mkBool(op == OpBVULe || op == OpBVSLe)
	}
	// zero-extended byte compared against a constant: narrow.
	return mk(op, SBool, a, b)
}

func tBVNot(a *Term) *Term {
	if a.isConst() {
		return mkConst(a.sort, ^a.k)
	}
	return mk(OpBVNot, a.sort, a)
}

func tBVNeg(a *Term) *Term {
	if a.isConst() {
		return mkConst(a.sort, -a.k)
	}
	return mk(OpBVNeg, a.sort, a)
}

func tExtract(a *Term, hi, lo int) *Term {
	w := uint(hi - lo + 1)
	if a.isConst() {
		return mkConst(bvSort(w), a.k>>uint(lo))
	}
	if w == a.sort.width() {
		return a
	}
	if (a.op == OpZeroExt || a.op == OpSignExt) && lo == 0 {
		in := a.a[0]
		if in.sort.width() == w {
			return in
		}
		if in.sort.width() > w {
			return tExtract(in, hi, lo)
		}
		if a.op == OpZeroExt {
			return tZeroExt(in, bvSort(w))
		}
		return tSignExt(in, bvSort(w))
	}
	t := &Term{op: OpExtract, sort: bvSort(w), a: []*Term{a}, p1: hi, p2: lo, cnt: a.cnt + 1}
	t.setSupport()
	return intern(t)
}

func tZeroExt(a *Term, to Sort) *Term {
	if a.sort == to {
		return a
	}
	if a.isConst() {
		return mkConst(to, a.k)
	}
	if a.op == OpZeroExt {
		return tZeroExt(a.a[0], to)
	}
	return mk(OpZeroExt, to, a)
}

func tSignExt(a *Term, to Sort) *Term {
	if a.sort == to {
		return a
	}
	if a.isConst() {
		return mkConst(to, uint64(sext(a.k, a.sort.width())))
	}
	if a.op == OpZeroExt {
		// sign-extending a zero-extended value is a zero-extension
		return tZeroExt(a.a[0], to)
	}
	return mk(OpSignExt, to, a)
}

// tResize converts a bit-vector to another width (truncate / extend by signedness of the source).
func tResize(a *Term, to Sort, srcSigned bool) *Term {
	fw, tw := a.sort.width(), to.width()
	switch {
	case fw == tw:
		return a
	case fw > tw:
		return tExtract(a, int(tw)-1, 0)
	case srcSigned:
		return tSignExt(a, to)
	default:
		return tZeroExt(a, to)
	}
}

// ---- float constructors ----

func fbits(s Sort, f float64) uint64 {
	if s == SF32 {
		return uint64(math.Float32bits(float32(f)))
	}
	return math.Float64bits(f)
}

func fval(t *Term) float64 {
	if t.sort == SF32 {
		return float64(math.Float32frombits(uint32(t.k)))
	}
	return math.Float64frombits(t.k)
}

func mkFloat(s Sort, f float64) *Term { return mkConst(s, fbits(s, f)) }

func tFArith(op Op, a, b *Term) *Term {
	if a.sort != b.sort || !a.sort.isFloat() {
		panic("tFArith sort mismatch")
	}
	if a.isConst() && b.isConst() {
		x, y := fval(a), fval(b)
		var r float64
		if a.sort == SF32 {
			x32, y32 := float32(x), float32(y)
			var r32 float32
			switch op {
			case OpFAdd:
				r32 = x32 + y32
			case OpFSub:
				r32 = x32 - y32
			case OpFMul:
				r32 = x32 * y32
			case OpFDiv:
				r32 = x32 / y32
			}
			return mkConst(SF32, uint64(math.Float32bits(r32)))
		}
		switch op {
		case OpFAdd:
			r = x + y
		case OpFSub:
			r = x - y
		case OpFMul:
			r = x * y
		case OpFDiv:
			r = x / y
		}
		return mkConst(SF64, math.Float64bits(r))
	}
	return mk(op, a.sort, a, b)
}

func tFNeg(a *Term) *Term {
	if a.isConst() {
		if a.sort == SF32 {
			return mkConst(SF32, a.k^(1<<31))
		}
		return mkConst(SF64, a.k^(1<<63))
	}
	return mk(OpFNeg, a.sort, a)
}

func tFCmp(op Op, a, b *Term) *Term {
	if a.sort != b.sort || !a.sort.isFloat() {
		panic("tFCmp sort mismatch")
	}
	if a.isConst() && b.isConst() {
		x, y := fval(a), fval(b)
		switch op {
		case OpFLt:
			return mkBool(x < y)
		case OpFLe:
			return mkBool(x <= y)
		case OpFEq:
			return mkBool(x == y)
		}
	}
	if a == b {
		switch op {
		case OpFLt:
			return tFalse
		case OpFLe, OpFEq:
			return tNot(tFIsNaN(a))
		}
	}
	return mk(op, SBool, a, b)
}

func tFIsNaN(a *Term) *Term {
	if a.isConst() {
		return mkBool(math.IsNaN(fval(a)))
	}
	switch a.op {
	case OpSToF, OpUToF:
		return tFalse
	case OpFToF, OpFNeg:
		return tFIsNaN(a.a[0])
	}
	return mk(OpFIsNaN, SBool, a)
}

func tFIsInf(a *Term) *Term {
	if a.isConst() {
		return mkBool(math.IsInf(fval(a), 0))
	}
	return mk(OpFIsInf, SBool, a)
}

func tFToF(a *Term, to Sort) *Term {
	if a.sort == to {
		return a
	}
	if a.isConst() {
		return mkFloat(to, fval(a))
	}
	return mk(OpFToF, to, a)
}

func tIntToF(a *Term, signed bool, to Sort) *Term {
	if a.isConst() {
		if signed {
			v := sext(a.k, a.sort.width())
			if to == SF32 {
				return mkConst(SF32, uint64(math.Float32bits(float32(v))))
			}
			return mkFloat(to, float64(v))
		}
		if to == SF32 {
			return mkConst(SF32, uint64(math.Float32bits(float32(a.k))))
		}
		return mkFloat(to, float64(a.k))
	}
	if signed {
		return mk(OpSToF, to, a)
	}
	return mk(OpUToF, to, a)
}

// tFToInt models the amd64 behaviour of Go's float->integer conversion as the gc
// compiler emits it (checked against native execution by the conformance
// suite): CVTTSD2SQ yields 0x8000000000000000 for NaN and for values outside
// [-2^63, 2^63); CVTTSD2SL yields 0x80000000 outside [-2^31, 2^31). int64/int
// use the 64-bit form; int32/int16/int8/uint16/uint8 use the 32-bit form and
// truncate; uint32 uses the 64-bit form and truncates; uint64/uint/uintptr use
// "f < 2^63 ? cvt(f) : cvt(f-2^63) | 1<<63".
func tFToInt(a *Term, to Sort, signed bool) *Term {
	f := a
	if f.sort == SF32 {
		f = tFToF(f, SF64)
	}
	cvt64 := func(x *Term) *Term {
		if x.isConst() {
			v := fval(x)
			if v >= -9223372036854775808.0 && v < 9223372036854775808.0 {
				return mkConst(SBV64, uint64(int64(v)))
			}
			return mkConst(SBV64, 1<<63)
		}
		two63 := mkFloat(SF64, 9223372036854775808.0)
		ntwo63 := mkFloat(SF64, -9223372036854775808.0)
		inRange := tAnd(tFCmp(OpFLe, ntwo63, x), tFCmp(OpFLt, x, two63))
		return tIte(inRange, mk(OpFToSBV, SBV64, x), mkConst(SBV64, 1<<63))
	}
	cvt32 := func(x *Term) *Term {
		if x.isConst() {
			v := fval(x)
			if v > -2147483649.0 && v < 2147483648.0 {
				return mkConst(SBV32, uint64(uint32(int32(v))))
			}
			return mkConst(SBV32, 1<<31)
		}
		hi := mkFloat(SF64, 2147483648.0)
		lo := mkFloat(SF64, -2147483649.0)
		inRange := tAnd(tFCmp(OpFLt, lo, x), tFCmp(OpFLt, x, hi))
		return tIte(inRange, mk(OpFToSBV, SBV32, x), mkConst(SBV32, 1<<31))
	}
	w := to.width()
	switch {
	case signed && w == 64:
		return cvt64(f)
	case signed, w <= 16:
		return tResize(cvt32(f), to, true)
	case w == 32:
		return tExtract(cvt64(f), 31, 0)
	}
	two63 := mkFloat(SF64, 9223372036854775808.0)
	lt := tFCmp(OpFLt, f, two63)
	hi := tBV(OpBVOr, cvt64(tFArith(OpFSub, f, two63)), mkConst(SBV64, 1<<63))
	return tIte(lt, cvt64(f), hi)
}

func tFFromBits(a *Term, to Sort) *Term {
	if a.isConst() {
		return mkConst(to, a.k)
	}
	return mk(OpFFromBits, to, a)
}

// ---- printing ----

func bvLit(w uint, k uint64) string {
	if w%4 == 0 {
		return fmt.Sprintf("#x%0*x", int(w/4), k&mask(w))
	}
	return fmt.Sprintf("#b%0*b", int(w), k&mask(w))
}

func constSMT(t *Term) string {
	switch t.sort {
	case SBool:
		if t.k != 0 {
			return "true"
		}
		return "false"
	case SF32:
		k := uint32(t.k)
		return fmt.Sprintf("(fp #b%b #b%08b #b%023b)", k>>31, (k>>23)&0xff, k&0x7fffff)
	case SF64:
		k := t.k
		return fmt.Sprintf("(fp #b%b #b%011b #b%052b)", k>>63, (k>>52)&0x7ff, k&((1<<52)-1))
	}
	return bvLit(t.sort.width(), t.k)
}

var opSMT = map[Op]string{
	OpNot: "not", OpAnd: "and", OpOr: "or", OpEq: "=", OpIte: "ite",
	OpBVAdd: "bvadd", OpBVSub: "bvsub", OpBVMul: "bvmul", OpBVUDiv: "bvudiv", OpBVSDiv: "bvsdiv",
	OpBVURem: "bvurem", OpBVSRem: "bvsrem", OpBVAnd: "bvand", OpBVOr: "bvor", OpBVXor: "bvxor",
	OpBVNot: "bvnot", OpBVNeg: "bvneg", OpBVShl: "bvshl", OpBVLShr: "bvlshr", OpBVAShr: "bvashr",
	OpBVULt: "bvult", OpBVULe: "bvule", OpBVSLt: "bvslt", OpBVSLe: "bvsle",
	OpFNeg: "fp.neg", OpFLt: "fp.lt", OpFLe: "fp.leq", OpFEq: "fp.eq", OpFIsNaN: "fp.isNaN", OpFIsInf: "fp.isInfinite",
}

// smtBody renders t's top-level operator with children referenced through ref.
func smtBody(t *Term, ref func(*Term) string) string {
	switch t.op {
	case OpConst:
		return constSMT(t)
	case OpVar:
		return t.name
	case OpExtract:
		return fmt.Sprintf("((_ extract %d %d) %s)", t.p1, t.p2, ref(t.a[0]))
	case OpZeroExt:
		return fmt.Sprintf("((_ zero_extend %d) %s)", t.sort.width()-t.a[0].sort.width(), ref(t.a[0]))
	case OpSignExt:
		return fmt.Sprintf("((_ sign_extend %d) %s)", t.sort.width()-t.a[0].sort.width(), ref(t.a[0]))
	case OpFAdd, OpFSub, OpFMul, OpFDiv:
		n := map[Op]string{OpFAdd: "fp.add", OpFSub: "fp.sub", OpFMul: "fp.mul", OpFDiv: "fp.div"}[t.op]
		return fmt.Sprintf("(%s RNE %s %s)", n, ref(t.a[0]), ref(t.a[1]))
	case OpFToF, OpSToF:
		eb, sb := 11, 53
		if t.sort == SF32 {
			eb, sb = 8, 24
		}
		return fmt.Sprintf("((_ to_fp %d %d) RNE %s)", eb, sb, ref(t.a[0]))
	case OpUToF:
		eb, sb := 11, 53
		if t.sort == SF32 {
			eb, sb = 8, 24
		}
		return fmt.Sprintf("((_ to_fp_unsigned %d %d) RNE %s)", eb, sb, ref(t.a[0]))
	case OpFToSBV:
		return fmt.Sprintf("((_ fp.to_sbv %d) RTZ %s)", t.sort.width(), ref(t.a[0]))
	case OpFToUBV:
		return fmt.Sprintf("((_ fp.to_ubv %d) RTZ %s)", t.sort.width(), ref(t.a[0]))
	case OpFFromBits:
		eb, sb := 11, 53
		if t.sort == SF32 {
			eb, sb = 8, 24
		}
		return fmt.Sprintf("((_ to_fp %d %d) %s)", eb, sb, ref(t.a[0]))
	}
	n, ok := opSMT[t.op]
	if !ok {
		panic(fmt.Sprintf("smtBody: op %d", t.op))
	}
	var sb strings.Builder
	sb.WriteByte('(')
	sb.WriteString(n)
	for _, x := range t.a {
		sb.WriteByte(' ')
		sb.WriteString(ref(x))
	}
	sb.WriteByte(')')
	return sb.String()
}

// String renders the full term (for debugging and small evidence samples).
func (t *Term) String() string {
	var ref func(*Term) string
	ref = func(x *Term) string { return smtBody(x, ref) }
	return ref(t)
}

var _ = bits.Len
