// Copyright 2013 The Go Authors. All rights reserved.
// Use of this source code is governed by a BSD-style
// license that can be found in the LICENSE file.

// Package interp is gosym's bounded symbolic interpreter for go/ssa.
//
// It started as a copy of golang.org/x/tools/go/ssa/interp (v0.29.0, BSD-3,
// see LICENSE) and was changed as described in /verif/DESIGN.md section 2:
// symbolic scalars and strings (SMT terms), solver-decided branches with
// decision-vector re-execution, deterministic maps / goroutines / channels,
// a model of package reflect over go/types, intrinsics for the opaque part
// of the standard library, monitors, and no dependence on the host runtime's
// map order or scheduler.
package interp

import (
	"fmt"
	"go/token"
	"go/types"
	"os"
	"runtime"
	"slices"
	"sync"

	"golang.org/x/tools/go/ssa"
)

type continuation int

const (
	kNext continuation = iota
	kReturn
	kJump
)

// Mode is a bitmask of options affecting the interpreter.
type Mode uint

const (
	DisableRecover Mode = 1 << iota // Disable recover() in target programs; show interpreter crash instead.
	EnableTracing                   // Print a trace of all instructions as they are interpreted.
)

type methodSet map[string]*ssa.Function

// Program-wide, immutable after Load.
type program struct {
	prog               *ssa.Program
	sizes              types.Sizes
	runtimeErrorString types.Type
	reflectPackage     *ssa.Package
	errorMethods       methodSet
	rtypeMethods       methodSet
	reflectValueType   *types.Named          // reflect.Value
	interpreted        map[*ssa.Package]bool // packages whose code and init are interpreted
	resettable         []*ssa.Package        // packages re-initialised for every path
	fnInfo             sync.Map              // *ssa.Function -> *fnInfo
	allPkgs            []*ssa.Package
	harnessPkg         *ssa.Package
}

// State of one worker (one interpreter instance = one heap).
type interpreter struct {
	*program
	globals map[*ssa.Global]*value // addresses of global variables
	mode    Mode
	consts  map[*ssa.Const]value
	w       *worker
	sched   *sched
}

type deferred struct {
	fn    value
	args  []value
	instr *ssa.Defer
	tail  *deferred
}

type fnInfo struct {
	slots  map[ssa.Value]int32
	n      int
	ext    externalFn
	name   string
	interp bool // may be interpreted from SSA
	isInit bool
	ucfg   bool // belongs to a go-ucfg package (for monitors / evidence)
}

type frame struct {
	i                *interpreter
	caller           *frame
	fn               *ssa.Function
	info             *fnInfo
	block, prevBlock *ssa.BasicBlock
	env              []value // dynamic values of SSA variables, by slot
	locals           []value
	defers           *deferred
	result           value
	panicking        bool
	panic            interface{}
	phitemps         []value // temporaries for parallel phi assignment
	depth            int
}

func (p *program) info(fn *ssa.Function) *fnInfo {
	if v, ok := p.fnInfo.Load(fn); ok {
		return v.(*fnInfo)
	}
	inf := &fnInfo{slots: make(map[ssa.Value]int32), name: fn.String()}
	add := func(v ssa.Value) {
		if _, ok := inf.slots[v]; !ok {
			inf.slots[v] = int32(inf.n)
			inf.n++
		}
	}
	for _, p := range fn.Params {
		add(p)
	}
	for _, fv := range fn.FreeVars {
		add(fv)
	}
	for _, l := range fn.Locals {
		add(l)
	}
	for _, b := range fn.Blocks {
		for _, ins := range b.Instrs {
			if v, ok := ins.(ssa.Value); ok {
				add(v)
			}
		}
	}
	if fn.Parent() == nil {
		inf.ext = externals[inf.name]
	}
	pkg := fn.Pkg
	if pkg == nil {
		if o := fn.Origin(); o != nil {
			pkg = o.Pkg
		}
	}
	if pkg == nil {
		// synthetic wrapper / bound method / thunk / instantiation: interpretable,
		// it only forwards to its target.
		inf.interp = true
		if fn.Object() != nil && fn.Object().Pkg() != nil {
			inf.ucfg = isUcfgPath(fn.Object().Pkg().Path())
		}
	} else {
		inf.interp = p.interpreted[pkg]
		inf.ucfg = isUcfgPath(pkg.Pkg.Path())
	}
	if fn.Parent() != nil {
		pi := p.info(fn.Parent())
		inf.interp = pi.interp
		inf.ucfg = pi.ucfg
	}
	inf.isInit = fn.Name() == "init" && fn.Parent() == nil && fn.Signature.Recv() == nil
	v, _ := p.fnInfo.LoadOrStore(fn, inf)
	return v.(*fnInfo)
}

func (fr *frame) get(key ssa.Value) value {
	switch key := key.(type) {
	case nil:
		// Hack; simplifies handling of optional attributes
		// such as ssa.Slice.{Low,High}.
		return nil
	case *ssa.Function, *ssa.Builtin:
		return key
	case *ssa.Const:
		if v, ok := fr.i.consts[key]; ok {
			return v
		}
		v := constValue(key)
		fr.i.consts[key] = v
		return v
	case *ssa.Global:
		if r, ok := fr.i.globals[key]; ok {
			return r
		}
	}
	if s, ok := fr.info.slots[key]; ok {
		return fr.env[s]
	}
	panic(fmt.Sprintf("get: no value for %T: %v", key, key.Name()))
}

func (fr *frame) set(key ssa.Value, v value) {
	fr.env[fr.info.slots[key]] = v
}

// runDefer runs a deferred call d.
// It always returns normally, but may set or clear fr.panic.
func (fr *frame) runDefer(d *deferred) {
	var ok bool
	defer func() {
		if !ok {
			// Deferred call created a new state of panic.
			r := recover()
			if isEngineAbort(r) {
				panic(r)
			}
			fr.panicking = true
			fr.panic = r
		}
	}()
	call(fr.i, fr, d.instr.Pos(), d.fn, d.args)
	ok = true
}

// runDefers executes fr's deferred function calls in LIFO order.
func (fr *frame) runDefers() {
	for d := fr.defers; d != nil; d = d.tail {
		fr.runDefer(d)
	}
	fr.defers = nil
	if fr.panicking {
		panic(fr.panic) // new panic, or still panicking
	}
}

// lookupMethod returns the method set for type typ, which may be one
// of the interpreter's fake types.
func lookupMethod(i *interpreter, typ types.Type, meth *types.Func) *ssa.Function {
	switch typ {
	case rtypeType:
		return i.rtypeMethods[meth.Id()]
	case errorType:
		return i.errorMethods[meth.Id()]
	}
	return i.prog.LookupMethod(typ, meth.Pkg(), meth.Name())
}

func deref(t types.Type) types.Type {
	return t.Underlying().(*types.Pointer).Elem()
}

const nilDeref = runtimeError("invalid memory address or nil pointer dereference")

// visitInstr interprets a single ssa.Instruction within the activation
// record frame.  It returns a continuation value indicating where to
// read the next instruction from.
func visitInstr(fr *frame, instr ssa.Instruction) continuation {
	switch instr := instr.(type) {
	case *ssa.DebugRef:
		// no-op

	case *ssa.UnOp:
		fr.set(instr, unop(fr, instr, fr.get(instr.X)))

	case *ssa.BinOp:
		fr.set(instr, binop(fr, instr.Op, instr.X.Type(), fr.get(instr.X), fr.get(instr.Y)))

	case *ssa.Call:
		fn, args := prepareCall(fr, &instr.Call)
		fr.set(instr, call(fr.i, fr, instr.Pos(), fn, args))

	case *ssa.ChangeInterface:
		fr.set(instr, fr.get(instr.X))

	case *ssa.ChangeType:
		fr.set(instr, fr.get(instr.X)) // (can't fail)

	case *ssa.Convert:
		fr.set(instr, conv(fr, instr.Type(), instr.X.Type(), fr.get(instr.X)))

	case *ssa.SliceToArrayPointer:
		fr.set(instr, sliceToArrayPointer(instr.Type(), instr.X.Type(), fr.get(instr.X)))

	case *ssa.MakeInterface:
		fr.set(instr, iface{t: instr.X.Type(), v: fr.get(instr.X)})

	case *ssa.Extract:
		fr.set(instr, fr.get(instr.Tuple).(tuple)[instr.Index])

	case *ssa.Slice:
		fr.set(instr, slice(fr, fr.get(instr.X), fr.get(instr.Low), fr.get(instr.High), fr.get(instr.Max)))

	case *ssa.Return:
		switch len(instr.Results) {
		case 0:
		case 1:
			fr.result = fr.get(instr.Results[0])
		default:
			res := make([]value, 0, len(instr.Results))
			for _, r := range instr.Results {
				res = append(res, fr.get(r))
			}
			fr.result = tuple(res)
		}
		fr.block = nil
		return kReturn

	case *ssa.RunDefers:
		fr.runDefers()

	case *ssa.Panic:
		panic(targetPanic{fr.get(instr.X)})

	case *ssa.Send:
		chanSend(fr, fr.get(instr.Chan).(*chanV), fr.get(instr.X))

	case *ssa.Store:
		addr := fr.get(instr.Addr).(*value)
		if addr == nil {
			panic(nilDeref)
		}
		fr.i.w.onWrite(fr, addr)
		store(deref(instr.Addr.Type()), addr, fr.get(instr.Val))

	case *ssa.If:
		succ := 1
		if fr.i.w.truth(fr.get(instr.Cond)) {
			succ = 0
		}
		fr.prevBlock, fr.block = fr.block, fr.block.Succs[succ]
		return kJump

	case *ssa.Jump:
		fr.prevBlock, fr.block = fr.block, fr.block.Succs[0]
		return kJump

	case *ssa.Defer:
		fn, args := prepareCall(fr, &instr.Call)
		defers := &fr.defers
		if into := fr.get(instr.DeferStack); into != nil {
			defers = into.(**deferred)
		}
		*defers = &deferred{
			fn:    fn,
			args:  args,
			instr: instr,
			tail:  *defers,
		}

	case *ssa.Go:
		fn, args := prepareCall(fr, &instr.Call)
		fr.i.sched.spawn(fr.i, instr.Pos(), fn, args)

	case *ssa.MakeChan:
		fr.set(instr, &chanV{cap: int(asInt64(fr.i.w.concrete(fr.get(instr.Size))))})

	case *ssa.Alloc:
		var addr *value
		if instr.Heap {
			// new
			addr = new(value)
			fr.set(instr, addr)
		} else {
			// local
			addr = fr.get(instr).(*value)
		}
		*addr = zero(deref(instr.Type()))

	case *ssa.MakeSlice:
		c := fr.i.w.allocSize(fr, fr.get(instr.Cap))
		l := fr.i.w.allocSize(fr, fr.get(instr.Len))
		if l < 0 || c < l {
			panic(runtimeError("makeslice: len out of range"))
		}
		fr.i.w.onAlloc(fr, c)
		slice := make([]value, c)
		tElt := instr.Type().Underlying().(*types.Slice).Elem()
		for i := range slice {
			slice[i] = zero(tElt)
		}
		fr.set(instr, slice[:l])

	case *ssa.MakeMap:
		fr.set(instr, newOMap(instr.Type().Underlying().(*types.Map).Key()))

	case *ssa.Range:
		fr.set(instr, rangeIter(fr, fr.get(instr.X), instr.X.Type()))

	case *ssa.Next:
		fr.set(instr, fr.get(instr.Iter).(iter).next(fr))

	case *ssa.FieldAddr:
		x := fr.get(instr.X).(*value)
		if x == nil {
			panic(nilDeref)
		}
		fr.set(instr, &(*x).(structure)[instr.Field])

	case *ssa.Field:
		fr.set(instr, fr.get(instr.X).(structure)[instr.Field])

	case *ssa.IndexAddr:
		x := fr.get(instr.X)
		switch x := x.(type) {
		case []value:
			idx := fr.i.w.index(fr.get(instr.Index), len(x))
			fr.set(instr, &x[idx])
		case *value: // *array
			if x == nil {
				panic(nilDeref)
			}
			a := (*x).(array)
			idx := fr.i.w.index(fr.get(instr.Index), len(a))
			fr.set(instr, &a[idx])
		default:
			panic(fmt.Sprintf("unexpected x type in IndexAddr: %T", x))
		}

	case *ssa.Index:
		x := fr.get(instr.X)
		switch x := x.(type) {
		case array:
			fr.set(instr, indexArray(fr, x, fr.get(instr.Index)))
		case string:
			idx := fr.i.w.index(fr.get(instr.Index), len(x))
			fr.set(instr, x[idx])
		case symstr:
			idx := fr.i.w.index(fr.get(instr.Index), len(x.b))
			fr.set(instr, x.b[idx])
		case opaqueStr:
			opaqueAbort(x)
		default:
			panic(fmt.Sprintf("unexpected x type in Index: %T", x))
		}

	case *ssa.Lookup:
		fr.set(instr, lookup(fr, instr, fr.get(instr.X), fr.get(instr.Index)))

	case *ssa.MapUpdate:
		m := fr.get(instr.Map).(*omap)
		if m == nil {
			panic(runtimeError("assignment to entry in nil map"))
		}
		fr.i.w.onMapWrite(fr, m)
		m.insert(fr.i.w, fr.get(instr.Key), fr.get(instr.Value))

	case *ssa.TypeAssert:
		fr.set(instr, typeAssert(fr.i, instr, fr.get(instr.X).(iface)))

	case *ssa.MakeClosure:
		bindings := make([]value, 0, len(instr.Bindings))
		for _, binding := range instr.Bindings {
			bindings = append(bindings, fr.get(binding))
		}
		fr.set(instr, &closure{instr.Fn.(*ssa.Function), bindings})

	case *ssa.Phi:
		panic("unreachable") // phis are processed at block entry

	case *ssa.Select:
		fr.set(instr, doSelect(fr, instr))

	default:
		panic(fmt.Sprintf("unexpected instruction: %T", instr))
	}

	return kNext
}

// prepareCall determines the function value and argument values for a
// function call in a Call, Go or Defer instruction, performing
// interface method lookup if needed.
func prepareCall(fr *frame, call *ssa.CallCommon) (fn value, args []value) {
	v := fr.get(call.Value)
	if call.Method == nil {
		// Function call.
		fn = v
		args = make([]value, 0, len(call.Args))
	} else {
		// Interface method invocation.
		recv := v.(iface)
		if recv.t == nil {
			panic(nilDeref)
		}
		if f := lookupMethod(fr.i, recv.t, call.Method); f == nil {
			// Unreachable in well-typed programs.
			panic(fmt.Sprintf("method set for dynamic type %v does not contain %s", recv.t, call.Method))
		} else {
			fn = f
		}
		args = make([]value, 0, len(call.Args)+1)
		args = append(args, recv.v)
	}
	for _, arg := range call.Args {
		args = append(args, fr.get(arg))
	}
	return
}

// call interprets a call to a function (function, builtin or closure)
// fn with arguments args, returning its result.
// callpos is the position of the callsite.
func call(i *interpreter, caller *frame, callpos token.Pos, fn value, args []value) value {
	switch fn := fn.(type) {
	case *ssa.Function:
		if fn == nil {
			panic(nilDeref) // nil of func type
		}
		return callSSA(i, caller, callpos, fn, args, nil)
	case *closure:
		return callSSA(i, caller, callpos, fn.Fn, args, fn.Env)
	case *ssa.Builtin:
		return callBuiltin(caller, callpos, fn, args)
	case *boundMethod:
		if fn == nil || fn.fn == nil {
			panic(nilDeref)
		}
		return callSSA(i, caller, callpos, fn.fn, append([]value{fn.recv}, args...), nil)
	}
	panic(fmt.Sprintf("cannot call %T", fn))
}

func loc(fset *token.FileSet, pos token.Pos) string {
	if pos == token.NoPos {
		return ""
	}
	return " at " + fset.Position(pos).String()
}

// callSSA interprets a call to function fn with arguments args,
// and lexical environment env, returning its result.
// callpos is the position of the callsite.
func callSSA(i *interpreter, caller *frame, callpos token.Pos, fn *ssa.Function, args []value, env []value) value {
	info := i.info(fn)
	fr := &frame{
		i:      i,
		caller: caller, // for panic/recover
		fn:     fn,
		info:   info,
	}
	if caller != nil {
		fr.depth = caller.depth + 1
	}
	if i.mode&EnableTracing != 0 {
		fmt.Fprintf(os.Stderr, "%*sEntering %s%s.\n", fr.depth, "", fn, loc(fn.Prog.Fset, fn.Pos()))
	}
	if info.ext != nil {
		return info.ext(fr, args)
	}
	if info.isInit && !info.interp {
		return nil // initialiser of an opaque package
	}
	if fn.Blocks == nil {
		i.w.unsupported("no code for function: " + info.name)
	}
	if !info.interp {
		i.w.unsupported("call into opaque package without intrinsic: " + info.name)
	}
	if fr.depth > i.w.maxDepth {
		i.w.boundHit("call-depth", fr)
	}

	// generic function body?
	if fn.TypeParams().Len() > 0 && len(fn.TypeArgs()) == 0 {
		panic("interp requires ssa.BuilderMode to include InstantiateGenerics to execute generics")
	}
	i.w.enter(fr)

	fr.env = make([]value, info.n)
	fr.block = fn.Blocks[0]
	fr.locals = make([]value, len(fn.Locals))
	for i, l := range fn.Locals {
		fr.locals[i] = zero(deref(l.Type()))
		fr.env[info.slots[l]] = &fr.locals[i]
	}
	for i, p := range fn.Params {
		fr.env[info.slots[p]] = args[i]
	}
	for i, fv := range fn.FreeVars {
		fr.env[info.slots[fv]] = env[i]
	}
	for fr.block != nil {
		runFrame(fr)
	}
	return fr.result
}

// runFrame executes SSA instructions starting at fr.block and
// continuing until a return, a panic, or a recovered panic.
func runFrame(fr *frame) {
	defer func() {
		if fr.block == nil {
			return // normal return
		}
		r := recover()
		if isEngineAbort(r) {
			panic(r)
		}
		if fr.i.mode&DisableRecover != 0 {
			panic(r)
		}
		r = fr.i.w.classifyPanic(fr, r)
		fr.panicking = true
		fr.panic = r
		if fr.i.mode&EnableTracing != 0 {
			fmt.Fprintf(os.Stderr, "Panicking: %T %v.\n", fr.panic, fr.panic)
		}
		fr.runDefers()
		fr.block = fr.fn.Recover
	}()

	w := fr.i.w
	for {
		w.cur = fr
		nonPhis := executePhis(fr)
		for _, instr := range nonPhis {
			w.steps++
			if w.steps > w.maxSteps {
				w.boundHit("steps", fr)
			}
			if fr.i.mode&EnableTracing != 0 {
				if v, ok := instr.(ssa.Value); ok {
					fmt.Fprintf(os.Stderr, "%*s\t%s = %s\n", fr.depth, "", v.Name(), instr)
				} else {
					fmt.Fprintf(os.Stderr, "%*s\t%s\n", fr.depth, "", instr)
				}
			}
			if visitInstr(fr, instr) == kReturn {
				return
			}
			// Inv: kNext (continue) or kJump (last instr)
		}
	}
}

// executePhis executes the phi-nodes at the start of the current
// block and returns the non-phi instructions.
func executePhis(fr *frame) []ssa.Instruction {
	firstNonPhi := -1
	for i, instr := range fr.block.Instrs {
		if _, ok := instr.(*ssa.Phi); !ok {
			firstNonPhi = i
			break
		}
	}
	// Inv: 0 <= firstNonPhi; every block contains a non-phi.

	nonPhis := fr.block.Instrs[firstNonPhi:]
	if firstNonPhi > 0 {
		phis := fr.block.Instrs[:firstNonPhi]
		// Execute parallel assignment of phis.
		predIndex := slices.Index(fr.block.Preds, fr.prevBlock)
		fr.phitemps = fr.phitemps[:0]
		for _, phi := range phis {
			phi := phi.(*ssa.Phi)
			fr.phitemps = append(fr.phitemps, fr.get(phi.Edges[predIndex]))
		}
		for i, phi := range phis {
			fr.set(phi.(*ssa.Phi), fr.phitemps[i])
		}
	}
	return nonPhis
}

// doRecover implements the recover() built-in.
func doRecover(caller *frame) value {
	// recover() must be exactly one level beneath the deferred
	// function (two levels beneath the panicking function) to
	// have any effect.  Thus we ignore both "defer recover()" and
	// "defer f() -> g() -> recover()".
	if caller.i.mode&DisableRecover == 0 &&
		caller != nil && !caller.panicking &&
		caller.caller != nil && caller.caller.panicking {
		caller.caller.panicking = false
		p := caller.caller.panic
		caller.caller.panic = nil

		switch p := p.(type) {
		case targetPanic:
			// The target program explicitly called panic().
			return p.v
		case runtime.Error:
			// The interpreter encountered a runtime error.
			return iface{caller.i.runtimeErrorString, p.Error()}
		case runtimeError:
			return iface{caller.i.runtimeErrorString, p.Error()}
		case string:
			// The interpreter explicitly called panic().
			return iface{caller.i.runtimeErrorString, p}
		default:
			panic(fmt.Sprintf("unexpected panic type %T in target call to recover()", p))
		}
	}
	return iface{}
}

// runtimeError is a target runtime panic raised by the engine itself (nil
// dereference, index out of range, division by zero ...).
type runtimeError string

func (e runtimeError) Error() string { return "runtime error: " + string(e) }

func isUcfgPath(p string) bool {
	const m = "github.com/elastic/go-ucfg"
	return p == m || (len(p) > len(m) && p[:len(m)+1] == m+"/")
}
