// Copyright 2013 The Go Authors. All rights reserved.
// Use of this source code is governed by a BSD-style
// license that can be found in the LICENSE file.

package interp

// Model of package "reflect" over the engine's typed heap.
//
// reflect.Type is an interface whose dynamic type is the engine's rtype, a
// wrapper around go/types.Type (so every question about a type is answered
// by the same source of truth the compiler uses). reflect.Value is the
// engine value rval: (type, payload, flags) with real addressability: an
// addressable Value holds a pointer to the heap cell it denotes, so Set,
// Addr, Field, Index and Elem alias exactly like the real package.

import (
	"fmt"
	"go/token"
	"go/types"
	"math"
	"reflect"
	"strings"

	"golang.org/x/tools/go/ssa"
)

type opaqueType struct {
	types.Type
	name string
}

func (t *opaqueType) String() string { return t.name }

// A bogus "reflect" type-checker package.  Shared across interpreters.
var reflectTypesPackage = types.NewPackage("reflect", "reflect")

// rtype is the concrete type the interpreter uses to implement the
// reflect.Type interface.
var rtypeType = makeNamedType("rtype", &opaqueType{nil, "rtype"})

// error is an (interpreted) named type whose underlying type is string.
// The interpreter uses it for all implementations of the built-in error
// interface that it creates.
var errorType = makeNamedType("error", &opaqueType{nil, "error"})

func makeNamedType(name string, underlying types.Type) *types.Named {
	obj := types.NewTypeName(token.NoPos, reflectTypesPackage, name, nil)
	return types.NewNamed(obj, underlying, nil)
}

const (
	rvAddr uint8 = 1 << iota // v is *value pointing at the cell holding the value
	rvRO                     // reached through an unexported field
)

type rval struct {
	t    types.Type // nil: the zero (invalid) Value
	v    value
	flag uint8
}

// boundMethod is a method value created by reflection.
type boundMethod struct {
	fn   *ssa.Function
	recv value
}

func (r rval) get() value {
	if r.flag&rvAddr != 0 {
		return load(r.t, r.v.(*value))
	}
	return r.v
}

func (r rval) kind() reflect.Kind {
	if r.t == nil {
		return reflect.Invalid
	}
	return reflectKind(r.t)
}

// makeReflectType boxes up an rtype in a reflect.Type interface.
func makeReflectType(t types.Type) value {
	if t == nil {
		return iface{}
	}
	return iface{rtypeType, rtype{t}}
}

func argType(v value) types.Type {
	itf := v.(iface)
	if itf.t == nil {
		panic(runtimeError("reflect: nil Type"))
	}
	return itf.v.(rtype).t
}

func reflectPanic(msg string) interface{} {
	// reflect panics with *ValueError or strings; both are ordinary target panics
	return targetPanic{iface{types.Typ[types.String], msg}}
}

func reflectKind(t types.Type) reflect.Kind {
	switch t := t.(type) {
	case *types.Named, *types.Alias:
		return reflectKind(t.Underlying())
	case *types.Basic:
		switch t.Kind() {
		case types.Bool:
			return reflect.Bool
		case types.Int:
			return reflect.Int
		case types.Int8:
			return reflect.Int8
		case types.Int16:
			return reflect.Int16
		case types.Int32:
			return reflect.Int32
		case types.Int64:
			return reflect.Int64
		case types.Uint:
			return reflect.Uint
		case types.Uint8:
			return reflect.Uint8
		case types.Uint16:
			return reflect.Uint16
		case types.Uint32:
			return reflect.Uint32
		case types.Uint64:
			return reflect.Uint64
		case types.Uintptr:
			return reflect.Uintptr
		case types.Float32:
			return reflect.Float32
		case types.Float64:
			return reflect.Float64
		case types.Complex64:
			return reflect.Complex64
		case types.Complex128:
			return reflect.Complex128
		case types.String:
			return reflect.String
		case types.UnsafePointer:
			return reflect.UnsafePointer
		}
	case *types.Array:
		return reflect.Array
	case *types.Chan:
		return reflect.Chan
	case *types.Signature:
		return reflect.Func
	case *types.Interface:
		return reflect.Interface
	case *types.Map:
		return reflect.Map
	case *types.Pointer:
		return reflect.Ptr
	case *types.Slice:
		return reflect.Slice
	case *types.Struct:
		return reflect.Struct
	}
	panic(fmt.Sprint("unexpected type: ", t))
}

// ---------------- reflect.Type ----------------

func ext۰reflect۰rtype۰Bits(fr *frame, args []value) value {
	rt := args[0].(rtype).t
	basic, ok := rt.Underlying().(*types.Basic)
	if !ok {
		panic(reflectPanic("reflect: Bits of non-arithmetic Type " + rt.String()))
	}
	return int(fr.i.sizes.Sizeof(basic)) * 8
}

func ext۰reflect۰rtype۰Elem(fr *frame, args []value) value {
	t := args[0].(rtype).t.Underlying()
	switch t := t.(type) {
	case *types.Pointer:
		return makeReflectType(t.Elem())
	case *types.Slice:
		return makeReflectType(t.Elem())
	case *types.Array:
		return makeReflectType(t.Elem())
	case *types.Map:
		return makeReflectType(t.Elem())
	case *types.Chan:
		return makeReflectType(t.Elem())
	}
	panic(reflectPanic("reflect: Elem of invalid type " + args[0].(rtype).t.String()))
}

func ext۰reflect۰rtype۰Key(fr *frame, args []value) value {
	if m, ok := args[0].(rtype).t.Underlying().(*types.Map); ok {
		return makeReflectType(m.Key())
	}
	panic(reflectPanic("reflect: Key of non-map type " + args[0].(rtype).t.String()))
}

func ext۰reflect۰rtype۰Len(fr *frame, args []value) value {
	if a, ok := args[0].(rtype).t.Underlying().(*types.Array); ok {
		return int(a.Len())
	}
	panic(reflectPanic("reflect: Len of non-array type " + args[0].(rtype).t.String()))
}

func structFieldValue(st *types.Struct, i int) value {
	f := st.Field(i)
	pkgPath := ""
	if !f.Exported() && f.Pkg() != nil {
		pkgPath = f.Pkg().Path()
	}
	return structure{
		f.Name(),
		pkgPath,
		makeReflectType(f.Type()),
		st.Tag(i),
		uintptr(0),
		[]value{i},
		f.Anonymous(),
	}
}

func ext۰reflect۰rtype۰Field(fr *frame, args []value) value {
	st, ok := args[0].(rtype).t.Underlying().(*types.Struct)
	if !ok {
		panic(reflectPanic("reflect: Field of non-struct type " + args[0].(rtype).t.String()))
	}
	i := int(asInt64(fr.i.w.concrete(args[1])))
	if i < 0 || i >= st.NumFields() {
		panic(reflectPanic("reflect: Field index out of bounds"))
	}
	return structFieldValue(st, i)
}

func ext۰reflect۰rtype۰In(fr *frame, args []value) value {
	i := int(asInt64(args[1]))
	return makeReflectType(args[0].(rtype).t.Underlying().(*types.Signature).Params().At(i).Type())
}

func ext۰reflect۰rtype۰Kind(fr *frame, args []value) value {
	return uint(reflectKind(args[0].(rtype).t))
}

func ext۰reflect۰rtype۰NumField(fr *frame, args []value) value {
	st, ok := args[0].(rtype).t.Underlying().(*types.Struct)
	if !ok {
		panic(reflectPanic("reflect: NumField of non-struct type " + args[0].(rtype).t.String()))
	}
	return st.NumFields()
}

func ext۰reflect۰rtype۰NumIn(fr *frame, args []value) value {
	return args[0].(rtype).t.Underlying().(*types.Signature).Params().Len()
}

// exportedMethods returns the exported methods of t's method set, sorted by name
// (reflect only exposes exported methods; for interface types all methods).
func exportedMethods(fr *frame, t types.Type) []*types.Selection {
	mset := fr.i.prog.MethodSets.MethodSet(t)
	var out []*types.Selection
	_, isIface := t.Underlying().(*types.Interface)
	for i := 0; i < mset.Len(); i++ {
		sel := mset.At(i)
		if isIface || sel.Obj().Exported() {
			out = append(out, sel)
		}
	}
	return out
}

func ext۰reflect۰rtype۰NumMethod(fr *frame, args []value) value {
	return len(exportedMethods(fr, args[0].(rtype).t))
}

func ext۰reflect۰rtype۰NumOut(fr *frame, args []value) value {
	return args[0].(rtype).t.Underlying().(*types.Signature).Results().Len()
}

func ext۰reflect۰rtype۰Out(fr *frame, args []value) value {
	i := int(asInt64(args[1]))
	return makeReflectType(args[0].(rtype).t.Underlying().(*types.Signature).Results().At(i).Type())
}

func ext۰reflect۰rtype۰Size(fr *frame, args []value) value {
	return uintptr(fr.i.sizes.Sizeof(args[0].(rtype).t))
}

func typeString(t types.Type) string {
	return types.TypeString(t, func(p *types.Package) string { return p.Name() })
}

func ext۰reflect۰rtype۰String(fr *frame, args []value) value {
	return typeString(args[0].(rtype).t)
}

func ext۰reflect۰rtype۰Name(fr *frame, args []value) value {
	switch t := args[0].(rtype).t.(type) {
	case *types.Named:
		return t.Obj().Name()
	case *types.Basic:
		return t.Name()
	case *types.Alias:
		return t.Obj().Name()
	}
	return ""
}

func ext۰reflect۰rtype۰PkgPath(fr *frame, args []value) value {
	if t, ok := args[0].(rtype).t.(*types.Named); ok && t.Obj().Pkg() != nil {
		return t.Obj().Pkg().Path()
	}
	return ""
}

func ext۰reflect۰rtype۰Comparable(fr *frame, args []value) value {
	return types.Comparable(args[0].(rtype).t)
}

func ext۰reflect۰rtype۰Implements(fr *frame, args []value) value {
	t := args[0].(rtype).t
	u := argType(args[1])
	it, ok := u.Underlying().(*types.Interface)
	if !ok {
		panic(reflectPanic("reflect: non-interface type passed to Type.Implements"))
	}
	return types.Implements(t, it)
}

func ext۰reflect۰rtype۰ConvertibleTo(fr *frame, args []value) value {
	return reflectConvertible(args[0].(rtype).t, argType(args[1]))
}

func ext۰reflect۰rtype۰AssignableTo(fr *frame, args []value) value {
	return types.AssignableTo(args[0].(rtype).t, argType(args[1]))
}

// reflectConvertible follows reflect's convertOp: go/types' ConvertibleTo,
// minus the conversions the language allows only for constants.
func reflectConvertible(from, to types.Type) bool {
	return types.ConvertibleTo(from, to)
}

func methodValue(fr *frame, t types.Type, sel *types.Selection, idx int) value {
	fn := fr.i.prog.MethodValue(sel)
	sig := sel.Obj().Type().(*types.Signature)
	var full *types.Signature
	if _, isIface := t.Underlying().(*types.Interface); isIface {
		full = types.NewSignatureType(nil, nil, nil, sig.Params(), sig.Results(), sig.Variadic())
	} else {
		// method expression type: receiver becomes the first parameter
		vars := []*types.Var{types.NewVar(token.NoPos, nil, "", t)}
		for i := 0; i < sig.Params().Len(); i++ {
			vars = append(vars, sig.Params().At(i))
		}
		full = types.NewSignatureType(nil, nil, nil, types.NewTuple(vars...), sig.Results(), sig.Variadic())
	}
	var fv value = (*ssa.Function)(nil)
	if fn != nil {
		fv = fn
	}
	pkgPath := ""
	if !sel.Obj().Exported() && sel.Obj().Pkg() != nil {
		pkgPath = sel.Obj().Pkg().Path()
	}
	return structure{
		sel.Obj().Name(),
		pkgPath,
		makeReflectType(full),
		rval{t: full, v: fv},
		idx,
	}
}

func ext۰reflect۰rtype۰MethodByName(fr *frame, args []value) value {
	t := args[0].(rtype).t
	name := args[1].(string)
	for i, sel := range exportedMethods(fr, t) {
		if sel.Obj().Name() == name {
			return tuple{methodValue(fr, t, sel, i), true}
		}
	}
	return tuple{structure{"", "", iface{}, rval{}, 0}, false}
}

func ext۰reflect۰rtype۰Method(fr *frame, args []value) value {
	t := args[0].(rtype).t
	i := int(asInt64(args[1]))
	ms := exportedMethods(fr, t)
	if i < 0 || i >= len(ms) {
		panic(reflectPanic("reflect: Method index out of range"))
	}
	return methodValue(fr, t, ms[i], i)
}

// ---------------- constructors ----------------

func ext۰reflect۰New(fr *frame, args []value) value {
	t := argType(args[0])
	alloc := zero(t)
	return rval{t: types.NewPointer(t), v: &alloc}
}

func ext۰reflect۰SliceOf(fr *frame, args []value) value {
	return makeReflectType(types.NewSlice(argType(args[0])))
}

func ext۰reflect۰PtrTo(fr *frame, args []value) value {
	return makeReflectType(types.NewPointer(argType(args[0])))
}

func ext۰reflect۰MapOf(fr *frame, args []value) value {
	return makeReflectType(types.NewMap(argType(args[0]), argType(args[1])))
}

func ext۰reflect۰TypeOf(fr *frame, args []value) value {
	return makeReflectType(args[0].(iface).t)
}

func ext۰reflect۰ValueOf(fr *frame, args []value) value {
	itf := args[0].(iface)
	if itf.t == nil {
		return rval{}
	}
	return rval{t: itf.t, v: itf.v}
}

func ext۰reflect۰Zero(fr *frame, args []value) value {
	t := argType(args[0])
	return rval{t: t, v: zero(t)}
}

func ext۰reflect۰MakeMap(fr *frame, args []value) value {
	t := argType(args[0])
	m, ok := t.Underlying().(*types.Map)
	if !ok {
		panic(reflectPanic("reflect.MakeMap of non-map type"))
	}
	return rval{t: t, v: newOMap(m.Key())}
}

func ext۰reflect۰MakeMapWithSize(fr *frame, args []value) value {
	return ext۰reflect۰MakeMap(fr, args[:1])
}

func ext۰reflect۰MakeSlice(fr *frame, args []value) value {
	t := argType(args[0])
	st, ok := t.Underlying().(*types.Slice)
	if !ok {
		panic(reflectPanic("reflect.MakeSlice of non-slice type"))
	}
	l := asInt64(fr.i.w.concrete(args[1]))
	c := asInt64(fr.i.w.concrete(args[2]))
	if l < 0 {
		panic(reflectPanic("reflect.MakeSlice: negative len"))
	}
	if c < 0 {
		panic(reflectPanic("reflect.MakeSlice: negative cap"))
	}
	if l > c {
		panic(reflectPanic("reflect.MakeSlice: len > cap"))
	}
	fr.i.w.onAlloc(callerUcfg(fr), c)
	s := make([]value, c)
	for i := range s {
		s[i] = zero(st.Elem())
	}
	return rval{t: t, v: s[:l]}
}

// callerUcfg returns the nearest go-ucfg frame (intrinsics run in a frame of
// the callee, which belongs to package reflect).
func callerUcfg(fr *frame) *frame {
	for f := fr; f != nil; f = f.caller {
		if f.info != nil && f.info.ucfg {
			return f
		}
	}
	return fr
}

func ext۰reflect۰Copy(fr *frame, args []value) value {
	dst, src := args[0].(rval), args[1].(rval)
	var d []value
	switch x := dst.get().(type) {
	case []value:
		d = x
	case array:
		if dst.flag&rvAddr == 0 {
			panic(reflectPanic("reflect.Copy: unaddressable array value"))
		}
		d = (*dst.v.(*value)).(array)
	default:
		panic(reflectPanic("reflect.Copy: destination is not a slice or array"))
	}
	var s []value
	switch x := src.get().(type) {
	case []value:
		s = x
	case array:
		s = x
	case string, symstr:
		s = strBytes(x)
	default:
		panic(reflectPanic("reflect.Copy: source is not a slice or array"))
	}
	n := len(d)
	if len(s) < n {
		n = len(s)
	}
	et := elemOf(dst.t)
	for i := 0; i < n; i++ {
		fr.i.w.onWrite(callerUcfg(fr), &d[i])
		store(et, &d[i], copyVal(et, s[i]))
	}
	return n
}

func elemOf(t types.Type) types.Type {
	switch t := t.Underlying().(type) {
	case *types.Slice:
		return t.Elem()
	case *types.Array:
		return t.Elem()
	case *types.Pointer:
		return t.Elem()
	case *types.Map:
		return t.Elem()
	case *types.Chan:
		return t.Elem()
	}
	panic("elemOf " + t.String())
}

// copyVal makes an unaliased copy of v of type t (structs and arrays are values).
func copyVal(t types.Type, v value) value {
	c := v
	return load(t, &c)
}

// ---------------- reflect.Value ----------------

func rv(v value) rval { return v.(rval) }

func (r rval) mustBe(k reflect.Kind, method string) {
	if r.kind() != k {
		panic(reflectPanic(fmt.Sprintf("reflect: call of reflect.Value.%s on %s Value", method, kindName(r))))
	}
}

func kindName(r rval) string {
	if r.t == nil {
		return "zero"
	}
	return r.kind().String()
}

func ext۰reflect۰Value۰Kind(fr *frame, args []value) value {
	return uint(rv(args[0]).kind())
}

func ext۰reflect۰Value۰String(fr *frame, args []value) value {
	r := rv(args[0])
	if r.t == nil {
		return "<invalid Value>"
	}
	if r.kind() == reflect.String {
		return r.get()
	}
	return "<" + typeString(r.t) + " Value>"
}

func ext۰reflect۰Value۰Type(fr *frame, args []value) value {
	r := rv(args[0])
	if r.t == nil {
		panic(reflectPanic("reflect: call of reflect.Value.Type on zero Value"))
	}
	return makeReflectType(r.t)
}

func ext۰reflect۰Value۰Uint(fr *frame, args []value) value {
	r := rv(args[0])
	switch v := r.get().(type) {
	case uint:
		return uint64(v)
	case uint8:
		return uint64(v)
	case uint16:
		return uint64(v)
	case uint32:
		return uint64(v)
	case uint64:
		return uint64(v)
	case uintptr:
		return uint64(v)
	case sym:
		if kindIsInt(v.k) && !kindSigned(v.k) {
			return mkSym(types.Uint64, tZeroExt(v.t, SBV64))
		}
	}
	panic(reflectPanic("reflect: call of reflect.Value.Uint on " + kindName(r) + " Value"))
}

func ext۰reflect۰Value۰Int(fr *frame, args []value) value {
	r := rv(args[0])
	switch x := r.get().(type) {
	case int:
		return int64(x)
	case int8:
		return int64(x)
	case int16:
		return int64(x)
	case int32:
		return int64(x)
	case int64:
		return x
	case sym:
		if kindSigned(x.k) {
			return mkSym(types.Int64, tSignExt(x.t, SBV64))
		}
	}
	panic(reflectPanic("reflect: call of reflect.Value.Int on " + kindName(r) + " Value"))
}

func ext۰reflect۰Value۰Float(fr *frame, args []value) value {
	r := rv(args[0])
	switch v := r.get().(type) {
	case float32:
		return float64(v)
	case float64:
		return float64(v)
	case sym:
		if kindIsFloat(v.k) {
			return mkSym(types.Float64, tFToF(v.t, SF64))
		}
	}
	panic(reflectPanic("reflect: call of reflect.Value.Float on " + kindName(r) + " Value"))
}

func ext۰reflect۰Value۰Bool(fr *frame, args []value) value {
	r := rv(args[0])
	r.mustBe(reflect.Bool, "Bool")
	return r.get()
}

func ext۰reflect۰Value۰Len(fr *frame, args []value) value {
	r := rv(args[0])
	switch v := r.get().(type) {
	case string:
		return len(v)
	case symstr:
		return len(v.b)
	case array:
		return len(v)
	case *chanV:
		if v == nil {
			return 0
		}
		return len(v.buf)
	case []value:
		return len(v)
	case *omap:
		return v.len()
	}
	panic(reflectPanic("reflect: call of reflect.Value.Len on " + kindName(r) + " Value"))
}

func ext۰reflect۰Value۰Cap(fr *frame, args []value) value {
	r := rv(args[0])
	switch v := r.get().(type) {
	case array:
		return len(v)
	case []value:
		return cap(v)
	}
	panic(reflectPanic("reflect: call of reflect.Value.Cap on " + kindName(r) + " Value"))
}

func wrapElem(et types.Type, v value) value {
	// storing into an interface-typed slot requires the value to be an iface already
	return v
}

func ext۰reflect۰Value۰MapIndex(fr *frame, args []value) value {
	r := rv(args[0])
	r.mustBe(reflect.Map, "MapIndex")
	mt := r.t.Underlying().(*types.Map)
	k := rv(args[1])
	if k.t == nil {
		panic(reflectPanic("reflect: call of reflect.Value.MapIndex with zero key Value"))
	}
	key := assignTo(fr, k, mt.Key(), "reflect.Value.MapIndex")
	m := r.get().(*omap)
	if v, ok := m.lookup(fr.i.w, key); ok {
		return rval{t: mt.Elem(), v: copyVal(mt.Elem(), v), flag: r.flag & rvRO}
	}
	return rval{}
}

func ext۰reflect۰Value۰MapKeys(fr *frame, args []value) value {
	r := rv(args[0])
	r.mustBe(reflect.Map, "MapKeys")
	tKey := r.t.Underlying().(*types.Map).Key()
	m := r.get().(*omap)
	var w *worker
	if callerUcfg(fr).info.ucfg {
		w = fr.i.w
	}
	keys := []value{}
	for _, e := range m.liveEntries(w) {
		keys = append(keys, rval{t: tKey, v: e.k, flag: r.flag & rvRO})
	}
	return keys
}

func ext۰reflect۰Value۰SetMapIndex(fr *frame, args []value) value {
	r := rv(args[0])
	r.mustBe(reflect.Map, "SetMapIndex")
	if r.flag&rvRO != 0 {
		panic(reflectPanic("reflect: reflect.Value.SetMapIndex using value obtained using unexported field"))
	}
	mt := r.t.Underlying().(*types.Map)
	key := assignTo(fr, rv(args[1]), mt.Key(), "reflect.Value.SetMapIndex")
	m := r.get().(*omap)
	ev := rv(args[2])
	if m == nil {
		if ev.t == nil {
			return nil
		}
		panic(runtimeError("assignment to entry in nil map"))
	}
	fr.i.w.onMapWrite(callerUcfg(fr), m)
	if ev.t == nil {
		m.delete(fr.i.w, key)
		return nil
	}
	m.insert(fr.i.w, key, assignTo(fr, ev, mt.Elem(), "reflect.Value.SetMapIndex"))
	return nil
}

// assignTo returns the representation of x when assigned to a slot of type dst.
func assignTo(fr *frame, x rval, dst types.Type, ctx string) value {
	if x.t == nil {
		panic(reflectPanic("reflect: " + ctx + " using zero Value argument"))
	}
	if x.flag&rvRO != 0 {
		panic(reflectPanic("reflect: " + ctx + " using value obtained using unexported field"))
	}
	if !types.AssignableTo(x.t, dst) {
		panic(reflectPanic(fmt.Sprintf("reflect.Set: value of type %s is not assignable to type %s", typeString(x.t), typeString(dst))))
	}
	v := x.get()
	if _, ok := dst.Underlying().(*types.Interface); ok {
		if _, isI := x.t.Underlying().(*types.Interface); !isI {
			return iface{t: x.t, v: copyVal(x.t, v)}
		}
		return v
	}
	return copyVal(dst, v)
}

func ext۰reflect۰Value۰NumField(fr *frame, args []value) value {
	r := rv(args[0])
	r.mustBe(reflect.Struct, "NumField")
	return r.t.Underlying().(*types.Struct).NumFields()
}

func ext۰reflect۰Value۰NumMethod(fr *frame, args []value) value {
	r := rv(args[0])
	if r.t == nil {
		panic(reflectPanic("reflect: call of reflect.Value.NumMethod on zero Value"))
	}
	if r.kind() == reflect.Interface {
		itf := r.get().(iface)
		_ = itf
	}
	return len(exportedMethods(fr, r.t))
}

func ext۰reflect۰Value۰Pointer(fr *frame, args []value) value {
	fr.i.w.unsupported("reflect.Value.Pointer")
	return nil
}

func ext۰reflect۰Value۰Index(fr *frame, args []value) value {
	r := rv(args[0])
	switch v := r.get().(type) {
	case []value:
		i := fr.i.w.indexReflect(args[1], len(v))
		return rval{t: elemOf(r.t), v: &v[i], flag: rvAddr | r.flag&rvRO}
	case array:
		if r.flag&rvAddr != 0 {
			a := (*r.v.(*value)).(array)
			i := fr.i.w.indexReflect(args[1], len(a))
			return rval{t: elemOf(r.t), v: &a[i], flag: rvAddr | r.flag&rvRO}
		}
		i := fr.i.w.indexReflect(args[1], len(v))
		return rval{t: elemOf(r.t), v: v[i], flag: r.flag & rvRO}
	case string:
		i := fr.i.w.indexReflect(args[1], len(v))
		return rval{t: types.Typ[types.Uint8], v: v[i]}
	case symstr:
		i := fr.i.w.indexReflect(args[1], len(v.b))
		return rval{t: types.Typ[types.Uint8], v: v.b[i]}
	}
	panic(reflectPanic("reflect: call of reflect.Value.Index on " + kindName(r) + " Value"))
}

func (w *worker) indexReflect(idx value, n int) int {
	idx = w.concrete(idx)
	i := asInt64(idx)
	if i < 0 || i >= int64(n) {
		panic(reflectPanic("reflect: slice index out of range"))
	}
	return int(i)
}

func ext۰reflect۰Value۰Slice(fr *frame, args []value) value {
	r := rv(args[0])
	i := int(asInt64(fr.i.w.concrete(args[1])))
	j := int(asInt64(fr.i.w.concrete(args[2])))
	switch v := r.get().(type) {
	case []value:
		if i < 0 || j < i || j > cap(v) {
			panic(reflectPanic("reflect.Value.Slice: slice index out of bounds"))
		}
		return rval{t: r.t, v: v[i:j], flag: r.flag & rvRO}
	case array:
		if r.flag&rvAddr == 0 {
			panic(reflectPanic("reflect.Value.Slice: slice of unaddressable array"))
		}
		a := (*r.v.(*value)).(array)
		if i < 0 || j < i || j > len(a) {
			panic(reflectPanic("reflect.Value.Slice: slice index out of bounds"))
		}
		return rval{t: types.NewSlice(elemOf(r.t)), v: []value(a)[i:j], flag: r.flag & rvRO}
	case string, symstr:
		if i < 0 || j < i || j > strLen(v) {
			panic(reflectPanic("reflect.Value.Slice: string slice index out of bounds"))
		}
		return rval{t: r.t, v: strSlice(v, i, j), flag: r.flag & rvRO}
	}
	panic(reflectPanic("reflect: call of reflect.Value.Slice on " + kindName(r) + " Value"))
}

func ext۰reflect۰Value۰CanAddr(fr *frame, args []value) value {
	return rv(args[0]).flag&rvAddr != 0
}

func ext۰reflect۰Value۰CanSet(fr *frame, args []value) value {
	r := rv(args[0])
	return r.flag&rvAddr != 0 && r.flag&rvRO == 0
}

func ext۰reflect۰Value۰CanInterface(fr *frame, args []value) value {
	r := rv(args[0])
	if r.t == nil {
		panic(reflectPanic("reflect: call of reflect.Value.CanInterface on zero Value"))
	}
	return r.flag&rvRO == 0
}

func ext۰reflect۰Value۰Addr(fr *frame, args []value) value {
	r := rv(args[0])
	if r.flag&rvAddr == 0 {
		panic(reflectPanic("reflect.Value.Addr of unaddressable value"))
	}
	return rval{t: types.NewPointer(r.t), v: r.v, flag: r.flag & rvRO}
}

func ext۰reflect۰Value۰Elem(fr *frame, args []value) value {
	r := rv(args[0])
	switch r.kind() {
	case reflect.Interface:
		x := r.get().(iface)
		if x.t == nil {
			return rval{}
		}
		return rval{t: x.t, v: x.v, flag: r.flag & rvRO}
	case reflect.Ptr:
		p := r.get().(*value)
		if p == nil {
			return rval{}
		}
		return rval{t: r.t.Underlying().(*types.Pointer).Elem(), v: p, flag: rvAddr | r.flag&rvRO}
	}
	panic(reflectPanic("reflect: call of reflect.Value.Elem on " + kindName(r) + " Value"))
}

func ext۰reflect۰Value۰Field(fr *frame, args []value) value {
	r := rv(args[0])
	r.mustBe(reflect.Struct, "Field")
	st := r.t.Underlying().(*types.Struct)
	i := int(asInt64(fr.i.w.concrete(args[1])))
	if i < 0 || i >= st.NumFields() {
		panic(reflectPanic("reflect: Field index out of range"))
	}
	f := st.Field(i)
	fl := r.flag & rvRO
	if !f.Exported() {
		fl |= rvRO
	}
	if r.flag&rvAddr != 0 {
		cell := r.v.(*value)
		return rval{t: f.Type(), v: &(*cell).(structure)[i], flag: fl | rvAddr}
	}
	return rval{t: f.Type(), v: r.v.(structure)[i], flag: fl}
}

func ext۰reflect۰Value۰Interface(fr *frame, args []value) value {
	r := rv(args[0])
	if r.t == nil {
		panic(reflectPanic("reflect: call of reflect.Value.Interface on zero Value"))
	}
	if r.flag&rvRO != 0 {
		panic(reflectPanic("reflect.Value.Interface: cannot return value obtained from unexported field or method"))
	}
	v := r.get()
	if r.kind() == reflect.Interface {
		// the contained interface value, re-packed as interface{}
		return v
	}
	return iface{t: r.t, v: copyVal(r.t, v)}
}

func ext۰reflect۰Value۰IsNil(fr *frame, args []value) value {
	r := rv(args[0])
	switch x := r.get().(type) {
	case *value:
		return x == nil
	case *chanV:
		return x == nil
	case *omap:
		return x == nil
	case iface:
		return x.t == nil
	case []value:
		return x == nil
	case *ssa.Function:
		return x == nil
	case *ssa.Builtin:
		return x == nil
	case *closure:
		return x == nil
	case *boundMethod:
		return x == nil
	}
	panic(reflectPanic("reflect: call of reflect.Value.IsNil on " + kindName(r) + " Value"))
}

func ext۰reflect۰Value۰IsValid(fr *frame, args []value) value {
	return rv(args[0]).t != nil
}

func ext۰reflect۰Value۰IsZero(fr *frame, args []value) value {
	r := rv(args[0])
	if r.t == nil {
		panic(reflectPanic("reflect: call of reflect.Value.IsZero on zero Value"))
	}
	if !types.Comparable(r.t) {
		switch x := r.get().(type) {
		case []value:
			return x == nil
		case *omap:
			return x == nil
		case *ssa.Function:
			return x == nil
		case *closure:
			return x == nil
		}
		fr.i.w.unsupported("reflect.Value.IsZero on " + r.t.String())
	}
	return equals(fr.i.w, r.t, r.get(), zero(r.t))
}

func (r rval) mustBeAssignable(op string) *value {
	if r.t == nil {
		panic(reflectPanic("reflect: call of " + op + " on zero Value"))
	}
	if r.flag&rvRO != 0 {
		panic(reflectPanic("reflect: " + op + " using value obtained using unexported field"))
	}
	if r.flag&rvAddr == 0 {
		panic(reflectPanic("reflect: " + op + " using unaddressable value"))
	}
	return r.v.(*value)
}

func ext۰reflect۰Value۰Set(fr *frame, args []value) value {
	r := rv(args[0])
	cell := r.mustBeAssignable("reflect.Value.Set")
	x := rv(args[1])
	v := assignTo(fr, x, r.t, "reflect.Set")
	fr.i.w.onWrite(callerUcfg(fr), cell)
	store(r.t, cell, v)
	return nil
}

func setScalar(fr *frame, args []value, op string, ok func(reflect.Kind) bool) value {
	r := rv(args[0])
	cell := r.mustBeAssignable("reflect.Value." + op)
	if !ok(r.kind()) {
		panic(reflectPanic("reflect: call of reflect.Value." + op + " on " + kindName(r) + " Value"))
	}
	k, _ := basicKindOf(r.t)
	var nv value
	switch x := args[1].(type) {
	case sym:
		nv = mkSym(k, symConvTerm(x.t, x.k, k))
	case string, symstr, bool:
		nv = x
	default:
		t, sk := termOf(x)
		nv = mkSym(k, symConvTerm(t, sk, k))
	}
	fr.i.w.onWrite(callerUcfg(fr), cell)
	*cell = nv
	return nil
}

func ext۰reflect۰Value۰SetInt(fr *frame, args []value) value {
	return setScalar(fr, args, "SetInt", func(k reflect.Kind) bool { return k >= reflect.Int && k <= reflect.Int64 })
}
func ext۰reflect۰Value۰SetUint(fr *frame, args []value) value {
	return setScalar(fr, args, "SetUint", func(k reflect.Kind) bool { return k >= reflect.Uint && k <= reflect.Uintptr })
}
func ext۰reflect۰Value۰SetFloat(fr *frame, args []value) value {
	return setScalar(fr, args, "SetFloat", func(k reflect.Kind) bool { return k == reflect.Float32 || k == reflect.Float64 })
}
func ext۰reflect۰Value۰SetBool(fr *frame, args []value) value {
	return setScalar(fr, args, "SetBool", func(k reflect.Kind) bool { return k == reflect.Bool })
}
func ext۰reflect۰Value۰SetString(fr *frame, args []value) value {
	return setScalar(fr, args, "SetString", func(k reflect.Kind) bool { return k == reflect.String })
}

func ext۰reflect۰Value۰OverflowInt(fr *frame, args []value) value {
	r := rv(args[0])
	k, ok := basicKindOf(r.t)
	if !ok || !kindSigned(k) {
		panic(reflectPanic("reflect: call of reflect.Value.OverflowInt on " + kindName(r) + " Value"))
	}
	bits := kindSort(k).width()
	switch x := args[1].(type) {
	case int64:
		trunc := (x << (64 - bits)) >> (64 - bits)
		return x != trunc
	case sym:
		if bits == 64 {
			return false
		}
		tr := tSignExt(tExtract(x.t, int(bits)-1, 0), SBV64)
		return mkSymBool(tNot(tEq(x.t, tr)))
	}
	panic("OverflowInt")
}

func ext۰reflect۰Value۰OverflowUint(fr *frame, args []value) value {
	r := rv(args[0])
	k, ok := basicKindOf(r.t)
	if !ok || !kindIsInt(k) || kindSigned(k) {
		panic(reflectPanic("reflect: call of reflect.Value.OverflowUint on " + kindName(r) + " Value"))
	}
	bits := kindSort(k).width()
	switch x := args[1].(type) {
	case uint64:
		trunc := (x << (64 - bits)) >> (64 - bits)
		return x != trunc
	case sym:
		if bits == 64 {
			return false
		}
		tr := tZeroExt(tExtract(x.t, int(bits)-1, 0), SBV64)
		return mkSymBool(tNot(tEq(x.t, tr)))
	}
	panic("OverflowUint")
}

func ext۰reflect۰Value۰OverflowFloat(fr *frame, args []value) value {
	r := rv(args[0])
	switch r.kind() {
	case reflect.Float64:
		return false
	case reflect.Float32:
		switch x := args[1].(type) {
		case float64:
			if x < 0 {
				x = -x
			}
			return math.MaxFloat32 < x && x <= math.MaxFloat64
		case sym:
			neg := tFCmp(OpFLt, x.t, mkFloat(SF64, 0))
			ax := tIte(neg, tFNeg(x.t), x.t)
			return mkSymBool(tAnd(tFCmp(OpFLt, mkFloat(SF64, math.MaxFloat32), ax), tFCmp(OpFLe, ax, mkFloat(SF64, math.MaxFloat64))))
		}
	}
	panic(reflectPanic("reflect: call of reflect.Value.OverflowFloat on " + kindName(r) + " Value"))
}

func ext۰reflect۰Value۰Convert(fr *frame, args []value) value {
	r := rv(args[0])
	if r.t == nil {
		panic(reflectPanic("reflect: call of reflect.Value.Convert on zero Value"))
	}
	if r.flag&rvRO != 0 {
		panic(reflectPanic("reflect: reflect.Value.Convert using value obtained using unexported field"))
	}
	dst := argType(args[1])
	if !reflectConvertible(r.t, dst) {
		panic(reflectPanic("reflect.Value.Convert: value of type " + typeString(r.t) + " cannot be converted to type " + typeString(dst)))
	}
	v := r.get()
	_, dstIface := dst.Underlying().(*types.Interface)
	_, srcIface := r.t.Underlying().(*types.Interface)
	switch {
	case dstIface && srcIface:
		return rval{t: dst, v: v}
	case dstIface:
		return rval{t: dst, v: iface{t: r.t, v: copyVal(r.t, v)}}
	}
	sb, sok := r.t.Underlying().(*types.Basic)
	_, dok := dst.Underlying().(*types.Basic)
	if sok && dok && sb.Kind() != types.UnsafePointer {
		return rval{t: dst, v: conv(fr, dst, r.t, v)}
	}
	if types.Identical(r.t.Underlying(), dst.Underlying()) {
		return rval{t: dst, v: copyVal(dst, v)}
	}
	// pointer types with identical base types, []byte <-> string, ...
	switch dst.Underlying().(type) {
	case *types.Pointer:
		return rval{t: dst, v: v}
	case *types.Slice, *types.Basic:
		return rval{t: dst, v: conv(fr, dst, r.t, v)}
	}
	fr.i.w.unsupported(fmt.Sprintf("reflect.Value.Convert %s -> %s", r.t, dst))
	return nil
}

func ext۰reflect۰Value۰MethodByName(fr *frame, args []value) value {
	r := rv(args[0])
	if r.t == nil {
		panic(reflectPanic("reflect: call of reflect.Value.MethodByName on zero Value"))
	}
	name := args[1].(string)
	t := r.t
	recv := r.get()
	if r.kind() == reflect.Interface {
		itf := recv.(iface)
		if itf.t == nil {
			panic(reflectPanic("reflect: Method on nil interface value"))
		}
		t, recv = itf.t, itf.v
	}
	for _, sel := range exportedMethods(fr, t) {
		if sel.Obj().Name() == name {
			fn := fr.i.prog.MethodValue(sel)
			sig := sel.Obj().Type().(*types.Signature)
			nsig := types.NewSignatureType(nil, nil, nil, sig.Params(), sig.Results(), sig.Variadic())
			return rval{t: nsig, v: &boundMethod{fn: fn, recv: recv}}
		}
	}
	return rval{}
}

func ext۰reflect۰Value۰Call(fr *frame, args []value) value {
	r := rv(args[0])
	r.mustBe(reflect.Func, "Call")
	sig := r.t.Underlying().(*types.Signature)
	in := args[1].([]value)
	if sig.Variadic() {
		fr.i.w.unsupported("reflect.Value.Call of variadic function")
	}
	if len(in) != sig.Params().Len() {
		panic(reflectPanic("reflect: Call with too few/many input arguments"))
	}
	cargs := make([]value, len(in))
	for i, a := range in {
		cargs[i] = assignTo(fr, rv(a), sig.Params().At(i).Type(), "reflect.Value.Call")
	}
	fn := r.get()
	switch f := fn.(type) {
	case *ssa.Function:
		if f == nil {
			panic(reflectPanic("reflect: call of nil function"))
		}
	}
	res := call(fr.i, fr, token.NoPos, fn, cargs)
	out := []value{}
	switch sig.Results().Len() {
	case 0:
	case 1:
		out = append(out, rval{t: sig.Results().At(0).Type(), v: res})
	default:
		for i, x := range res.(tuple) {
			out = append(out, rval{t: sig.Results().At(i).Type(), v: x})
		}
	}
	return out
}

func ext۰reflect۰StructTag۰Get(fr *frame, args []value) value {
	tag, ok := args[0].(string)
	key, ok2 := args[1].(string)
	if !ok || !ok2 {
		fr.i.w.unsupported("symbolic struct tag")
	}
	return reflect.StructTag(tag).Get(key)
}

func ext۰reflect۰StructTag۰Lookup(fr *frame, args []value) value {
	v, ok := reflect.StructTag(args[0].(string)).Lookup(args[1].(string))
	return tuple{v, ok}
}

func ext۰reflect۰Kind۰String(fr *frame, args []value) value {
	return reflect.Kind(asInt64(args[0])).String()
}

func ext۰reflect۰DeepEqual(fr *frame, args []value) value {
	return deepEq(fr.i.w, args[0], args[1], false)
}

func ext۰reflect۰error۰Error(fr *frame, args []value) value {
	return args[0]
}

// newMethod creates a new method of the specified name, package and receiver type.
func newMethod(pkg *ssa.Package, recvType types.Type, name string) *ssa.Function {
	sig := types.NewSignatureType(types.NewVar(token.NoPos, nil, "recv", recvType), nil, nil, nil, nil, false)
	fn := pkg.Prog.NewFunction(name, sig, "fake reflect method")
	fn.Pkg = pkg
	return fn
}

func initReflect(p *program) {
	p.reflectPackage = &ssa.Package{
		Prog:    p.prog,
		Pkg:     reflectTypesPackage,
		Members: make(map[string]ssa.Member),
	}
	if r := p.prog.ImportedPackage("reflect"); r != nil {
		reflectValueNamed = r.Pkg.Scope().Lookup("Value").Type().(*types.Named)
		p.reflectValueType = reflectValueNamed
	}
	p.rtypeMethods = methodSet{}
	for _, m := range []string{"Bits", "Elem", "Field", "In", "Kind", "NumField", "NumIn", "NumMethod", "NumOut", "Out", "Size", "String",
		"Key", "Len", "Name", "PkgPath", "Comparable", "Implements", "ConvertibleTo", "AssignableTo", "MethodByName", "Method"} {
		p.rtypeMethods[m] = newMethod(p.reflectPackage, rtypeType, m)
	}
	p.errorMethods = methodSet{
		"Error": newMethod(p.reflectPackage, errorType, "Error"),
	}
}

func init() {
	for k, v := range map[string]externalFn{
		"(reflect.Value).Bool":          ext۰reflect۰Value۰Bool,
		"(reflect.Value).CanAddr":       ext۰reflect۰Value۰CanAddr,
		"(reflect.Value).CanSet":        ext۰reflect۰Value۰CanSet,
		"(reflect.Value).CanInterface":  ext۰reflect۰Value۰CanInterface,
		"(reflect.Value).Addr":          ext۰reflect۰Value۰Addr,
		"(reflect.Value).Elem":          ext۰reflect۰Value۰Elem,
		"(reflect.Value).Field":         ext۰reflect۰Value۰Field,
		"(reflect.Value).Float":         ext۰reflect۰Value۰Float,
		"(reflect.Value).Index":         ext۰reflect۰Value۰Index,
		"(reflect.Value).Slice":         ext۰reflect۰Value۰Slice,
		"(reflect.Value).Int":           ext۰reflect۰Value۰Int,
		"(reflect.Value).Interface":     ext۰reflect۰Value۰Interface,
		"(reflect.Value).IsNil":         ext۰reflect۰Value۰IsNil,
		"(reflect.Value).IsValid":       ext۰reflect۰Value۰IsValid,
		"(reflect.Value).IsZero":        ext۰reflect۰Value۰IsZero,
		"(reflect.Value).Kind":          ext۰reflect۰Value۰Kind,
		"(reflect.Value).Len":           ext۰reflect۰Value۰Len,
		"(reflect.Value).Cap":           ext۰reflect۰Value۰Cap,
		"(reflect.Value).MapIndex":      ext۰reflect۰Value۰MapIndex,
		"(reflect.Value).MapKeys":       ext۰reflect۰Value۰MapKeys,
		"(reflect.Value).SetMapIndex":   ext۰reflect۰Value۰SetMapIndex,
		"(reflect.Value).NumField":      ext۰reflect۰Value۰NumField,
		"(reflect.Value).NumMethod":     ext۰reflect۰Value۰NumMethod,
		"(reflect.Value).Pointer":       ext۰reflect۰Value۰Pointer,
		"(reflect.Value).Set":           ext۰reflect۰Value۰Set,
		"(reflect.Value).SetInt":        ext۰reflect۰Value۰SetInt,
		"(reflect.Value).SetUint":       ext۰reflect۰Value۰SetUint,
		"(reflect.Value).SetFloat":      ext۰reflect۰Value۰SetFloat,
		"(reflect.Value).SetBool":       ext۰reflect۰Value۰SetBool,
		"(reflect.Value).SetString":     ext۰reflect۰Value۰SetString,
		"(reflect.Value).String":        ext۰reflect۰Value۰String,
		"(reflect.Value).Type":          ext۰reflect۰Value۰Type,
		"(reflect.Value).Uint":          ext۰reflect۰Value۰Uint,
		"(reflect.Value).Convert":       ext۰reflect۰Value۰Convert,
		"(reflect.Value).OverflowInt":   ext۰reflect۰Value۰OverflowInt,
		"(reflect.Value).OverflowUint":  ext۰reflect۰Value۰OverflowUint,
		"(reflect.Value).OverflowFloat": ext۰reflect۰Value۰OverflowFloat,
		"(reflect.Value).MethodByName":  ext۰reflect۰Value۰MethodByName,
		"(reflect.Value).Call":          ext۰reflect۰Value۰Call,
		"(reflect.StructTag).Get":       ext۰reflect۰StructTag۰Get,
		"(reflect.StructTag).Lookup":    ext۰reflect۰StructTag۰Lookup,
		"(reflect.Kind).String":         ext۰reflect۰Kind۰String,
		"(reflect.error).Error":         ext۰reflect۰error۰Error,
		"(reflect.rtype).Bits":          ext۰reflect۰rtype۰Bits,
		"(reflect.rtype).Elem":          ext۰reflect۰rtype۰Elem,
		"(reflect.rtype).Key":           ext۰reflect۰rtype۰Key,
		"(reflect.rtype).Len":           ext۰reflect۰rtype۰Len,
		"(reflect.rtype).Field":         ext۰reflect۰rtype۰Field,
		"(reflect.rtype).In":            ext۰reflect۰rtype۰In,
		"(reflect.rtype).Kind":          ext۰reflect۰rtype۰Kind,
		"(reflect.rtype).NumField":      ext۰reflect۰rtype۰NumField,
		"(reflect.rtype).NumIn":         ext۰reflect۰rtype۰NumIn,
		"(reflect.rtype).NumMethod":     ext۰reflect۰rtype۰NumMethod,
		"(reflect.rtype).NumOut":        ext۰reflect۰rtype۰NumOut,
		"(reflect.rtype).Out":           ext۰reflect۰rtype۰Out,
		"(reflect.rtype).Size":          ext۰reflect۰rtype۰Size,
		"(reflect.rtype).String":        ext۰reflect۰rtype۰String,
		"(reflect.rtype).Name":          ext۰reflect۰rtype۰Name,
		"(reflect.rtype).PkgPath":       ext۰reflect۰rtype۰PkgPath,
		"(reflect.rtype).Comparable":    ext۰reflect۰rtype۰Comparable,
		"(reflect.rtype).Implements":    ext۰reflect۰rtype۰Implements,
		"(reflect.rtype).ConvertibleTo": ext۰reflect۰rtype۰ConvertibleTo,
		"(reflect.rtype).AssignableTo":  ext۰reflect۰rtype۰AssignableTo,
		"(reflect.rtype).MethodByName":  ext۰reflect۰rtype۰MethodByName,
		"(reflect.rtype).Method":        ext۰reflect۰rtype۰Method,
		"reflect.New":                   ext۰reflect۰New,
		"reflect.SliceOf":               ext۰reflect۰SliceOf,
		"reflect.PtrTo":                 ext۰reflect۰PtrTo,
		"reflect.PointerTo":             ext۰reflect۰PtrTo,
		"reflect.MapOf":                 ext۰reflect۰MapOf,
		"reflect.TypeOf":                ext۰reflect۰TypeOf,
		"internal/reflectlite.TypeOf":   ext۰reflect۰TypeOf,
		"reflect.ValueOf":               ext۰reflect۰ValueOf,
		"reflect.Zero":                  ext۰reflect۰Zero,
		"reflect.MakeMap":               ext۰reflect۰MakeMap,
		"reflect.MakeMapWithSize":       ext۰reflect۰MakeMapWithSize,
		"reflect.MakeSlice":             ext۰reflect۰MakeSlice,
		"reflect.Copy":                  ext۰reflect۰Copy,
		"reflect.DeepEqual":             ext۰reflect۰DeepEqual,
	} {
		externals[k] = v
	}
}

var _ = strings.Contains
