package interp

// Path exploration: decision-vector DFS with deterministic re-execution.
// A worker owns one interpreter (heap), one solver process and executes one
// path at a time from the start of the harness, following a recorded prefix
// of decisions and asking the solver at every new symbolic branch.

import (
	"fmt"
	"go/types"
	"os"
	"runtime"
	"sort"
	"strconv"
	"strings"
	"sync"
	"time"

	"golang.org/x/tools/go/ssa"
)

var debugUnsupported = os.Getenv("GOSYM_DEBUG_UNSUPPORTED") != ""

type abortKind int

const (
	abAssume      abortKind = iota // Assume() made the path infeasible
	abBound                        // step / depth bound hit
	abUnsupported                  // construct outside the engine
	abEngine                       // engine-internal error
	abStop                         // path ended early on purpose (e.g. after a violation whose negation is infeasible)
	abTarget                       // target-level fatal condition (deadlock, uncaught panic in goroutine)
)

type pathAbort struct {
	kind abortKind
	msg  string
}

type killG struct{}

func isEngineAbort(r interface{}) bool {
	switch r.(type) {
	case pathAbort, killG:
		return true
	}
	return false
}

type inputVar struct {
	Name string
	Kind types.BasicKind
	term *Term
	// choices are concrete along a path
	isChoice bool
	choice   int64
}

// Finding is a potential violation produced on one path.
type Finding struct {
	Harness   string            `json:"harness"`
	Label     string            `json:"label"`
	Kind      string            `json:"kind"` // assert | panic | leak | deadlock | alloc | write | hang | maporder
	Msg       string            `json:"msg"`
	Values    map[string]string `json:"values"`
	Decisions []int64           `json:"decisions"`
	Stack     []string          `json:"stack,omitempty"`
	Tainted   bool              `json:"tainted,omitempty"` // an over-approximating stub was used on the path
	MapOrder  bool              `json:"map_order,omitempty"` // the path depends on a non-canonical map iteration order chosen by the engine
	EngineOnly bool             `json:"engine_only,omitempty"`
}

type Config struct {
	Harness     string
	Tier        int
	Workers     int
	MaxSteps    int64
	MaxDepth    int
	MaxPaths    int64
	SolverKind  string
	SolverTOms  int
	Deadline    time.Time
	Trace       bool
	Concrete    map[string]string // replay inside the engine: fixed input values
	FixedPrefix []int64
	MaxFindingsPerLabel int
}

type HarnessStats struct {
	Harness       string
	Paths         int64 // completed feasible paths
	AssumedAway   int64
	Decisions     int64 // solver-decided branch decisions
	Forks         int64
	Queries       int64
	Sat, Unsat    int64
	Unknown       int64
	Choices       int64 // structural n-way decision points (shapes, operations, policies, map orders)
	PCChecks      int64 // completed paths whose whole path condition was re-checked by the SMT solver
	DomainDecided int64 // branch decisions settled exactly by finite-domain evaluation of a single byte/bool variable
	SolverTime    time.Duration
	Steps         int64
	MaxPathSteps  int64
	Obligations   int64 // assertion evaluations
	Discharged    int64
	BoundHits     map[string]int64
	Unsupported   map[string]int64
	EngineErrors  map[string]int64
	Reach         map[string]int64
	ReachSample   map[string]map[string]string
	Findings      []*Finding
	FindingCount  map[string]int64
	Functions     map[string]bool
	Stubs         map[string]int64
	Assumptions   map[string]int64
	SolverErrors  []string
	Wall          time.Duration
	TimedOut      bool
	PathBudgetHit bool
	Samples       []map[string]string
	MaxInputs     int
}

type Explorer struct {
	prog *program
	cfg  Config
	fn   *ssa.Function

	mu       sync.Mutex
	cond     *sync.Cond
	queue    [][]int64
	inflight int
	stop     bool
	stats    *HarnessStats
	started  int64
}

type worker struct {
	id     int
	ip     *interpreter
	solver *Solver
	ex     *Explorer

	// per path
	prefix   []int64
	pos      int
	trace    []int64
	pc       []*Term
	inputs   []*inputVar
	names    map[string]int
	steps    int64
	maxSteps int64
	maxDepth int
	tainted  bool
	reached  map[string]bool
	tier     int
	ptrIDs   map[*value]int
	cmodel   map[*Term]uint64 // last satisfying assignment of the path condition
	modelOK  bool
	known    map[*Term]bool // atoms whose truth value follows syntactically from the path condition
	dom          map[*Term]*domain
	csp          []*Term // multi-variable constraints of the path condition over small variables
	witness      domSet
	smallTainted bool // a constraint mixes small and wide variables: only the SMT solver decides

	// monitors
	roActive   bool
	roCells    map[*value]bool
	roMaps     map[*omap]bool
	roLabel    string
	allocLimit int64
	permute    int // 0 off, 1 every map iteration permuted (product), 2 exactly one iteration permuted (sum)
	permDone   bool
	permUsed   bool
	schedAll   bool   // every scheduling choice at channel operations is a decision
	schedEager bool   // deterministic policy: yield to another goroutine at every channel operation
	cur        *frame // innermost interpreted frame (diagnostics)
	decoderResults map[string]value
	files          map[string]value
	noPanicDepth int

	// local stats merged at the end
	st        *HarnessStats
	pathSteps int64
}

func newStats(h string) *HarnessStats {
	return &HarnessStats{Harness: h, BoundHits: map[string]int64{}, Unsupported: map[string]int64{}, EngineErrors: map[string]int64{},
		Reach: map[string]int64{}, ReachSample: map[string]map[string]string{}, FindingCount: map[string]int64{}, Functions: map[string]bool{},
		Stubs: map[string]int64{}, Assumptions: map[string]int64{}}
}

func (s *HarnessStats) merge(o *HarnessStats) {
	s.Paths += o.Paths
	s.AssumedAway += o.AssumedAway
	s.Decisions += o.Decisions
	s.DomainDecided += o.DomainDecided
	s.PCChecks += o.PCChecks
	s.Choices += o.Choices
	s.Forks += o.Forks
	s.Steps += o.Steps
	if o.MaxPathSteps > s.MaxPathSteps {
		s.MaxPathSteps = o.MaxPathSteps
	}
	s.Obligations += o.Obligations
	s.Discharged += o.Discharged
	for k, v := range o.BoundHits {
		s.BoundHits[k] += v
	}
	for k, v := range o.Unsupported {
		s.Unsupported[k] += v
	}
	for k, v := range o.EngineErrors {
		s.EngineErrors[k] += v
	}
	for k, v := range o.Reach {
		s.Reach[k] += v
	}
	for k, v := range o.ReachSample {
		if _, ok := s.ReachSample[k]; !ok {
			s.ReachSample[k] = v
		}
	}
	for k, v := range o.FindingCount {
		s.FindingCount[k] += v
	}
	for k := range o.Functions {
		s.Functions[k] = true
	}
	for k, v := range o.Stubs {
		s.Stubs[k] += v
	}
	for k, v := range o.Assumptions {
		s.Assumptions[k] += v
	}
	s.Findings = append(s.Findings, o.Findings...)
	if len(s.Samples) < 5 {
		s.Samples = append(s.Samples, o.Samples...)
		if len(s.Samples) > 5 {
			s.Samples = s.Samples[:5]
		}
	}
	if o.MaxInputs > s.MaxInputs {
		s.MaxInputs = o.MaxInputs
	}
}

// ---- exploration driver ----

func (p *program) Explore(cfg Config) (*HarnessStats, error) {
	fn := p.harnessFunc(cfg.Harness)
	if fn == nil {
		return nil, fmt.Errorf("harness function %q not found", cfg.Harness)
	}
	if cfg.Workers <= 0 {
		cfg.Workers = runtime.NumCPU()
	}
	if cfg.MaxSteps == 0 {
		cfg.MaxSteps = 2_000_000
	}
	if cfg.MaxDepth == 0 {
		cfg.MaxDepth = 400
	}
	if cfg.SolverTOms == 0 {
		cfg.SolverTOms = 60000
	}
	if cfg.MaxFindingsPerLabel == 0 {
		cfg.MaxFindingsPerLabel = 2
	}
	ex := &Explorer{prog: p, cfg: cfg, fn: fn, stats: newStats(cfg.Harness)}
	ex.cond = sync.NewCond(&ex.mu)
	first := []int64{}
	if cfg.FixedPrefix != nil {
		first = cfg.FixedPrefix
	}
	ex.queue = append(ex.queue, first)
	start := time.Now()

	var wg sync.WaitGroup
	errs := make(chan error, cfg.Workers)
	for i := 0; i < cfg.Workers; i++ {
		wg.Add(1)
		go func(id int) {
			defer wg.Done()
			w, err := ex.newWorker(id)
			if err != nil {
				errs <- err
				ex.mu.Lock()
				ex.stop = true
				ex.cond.Broadcast()
				ex.mu.Unlock()
				return
			}
			defer w.solver.Close()
			w.loop()
			ex.mu.Lock()
			w.st.Queries = int64(w.solver.Queries)
			w.st.Sat = int64(w.solver.NSat)
			w.st.Unsat = int64(w.solver.NUnsat)
			w.st.Unknown = int64(w.solver.NUnknown)
			ex.stats.merge(w.st)
			ex.stats.Queries += w.st.Queries
			ex.stats.Sat += w.st.Sat
			ex.stats.Unsat += w.st.Unsat
			ex.stats.Unknown += w.st.Unknown
			ex.stats.SolverTime += w.solver.Time
			ex.stats.SolverErrors = append(ex.stats.SolverErrors, w.solver.Errors...)
			ex.mu.Unlock()
		}(i)
	}
	wg.Wait()
	select {
	case err := <-errs:
		return nil, err
	default:
	}
	ex.stats.Wall = time.Since(start)
	sort.Slice(ex.stats.Findings, func(i, j int) bool {
		a, b := ex.stats.Findings[i], ex.stats.Findings[j]
		if a.Label != b.Label {
			return a.Label < b.Label
		}
		return fmt.Sprint(a.Decisions) < fmt.Sprint(b.Decisions)
	})
	return ex.stats, nil
}

func (ex *Explorer) pop() ([]int64, bool) {
	ex.mu.Lock()
	defer ex.mu.Unlock()
	for {
		if ex.stop {
			return nil, false
		}
		if !ex.cfg.Deadline.IsZero() && time.Now().After(ex.cfg.Deadline) {
			ex.stats.TimedOut = true
			ex.stop = true
			ex.cond.Broadcast()
			return nil, false
		}
		if ex.cfg.MaxPaths > 0 && ex.started >= ex.cfg.MaxPaths {
			if len(ex.queue) > 0 {
				ex.stats.PathBudgetHit = true
			}
			ex.stop = true
			ex.cond.Broadcast()
			return nil, false
		}
		if n := len(ex.queue); n > 0 {
			p := ex.queue[n-1]
			ex.queue = ex.queue[:n-1]
			ex.inflight++
			ex.started++
			return p, true
		}
		if ex.inflight == 0 {
			ex.stop = true
			ex.cond.Broadcast()
			return nil, false
		}
		ex.cond.Wait()
	}
}

func (ex *Explorer) push(p []int64) {
	ex.mu.Lock()
	ex.queue = append(ex.queue, p)
	ex.cond.Signal()
	ex.mu.Unlock()
}

func (ex *Explorer) done() {
	ex.mu.Lock()
	ex.inflight--
	if ex.inflight == 0 && len(ex.queue) == 0 {
		ex.cond.Broadcast()
	}
	ex.mu.Unlock()
}

func (ex *Explorer) newWorker(id int) (*worker, error) {
	sv, err := NewSolver(ex.cfg.SolverKind, ex.cfg.SolverTOms)
	if err != nil {
		return nil, err
	}
	w := &worker{id: id, solver: sv, ex: ex, st: newStats(ex.cfg.Harness), maxSteps: ex.cfg.MaxSteps, maxDepth: ex.cfg.MaxDepth, tier: ex.cfg.Tier}
	ip := &interpreter{program: ex.prog, globals: make(map[*ssa.Global]*value), consts: make(map[*ssa.Const]value), w: w}
	if ex.cfg.Trace {
		ip.mode |= EnableTracing
	}
	w.ip = ip
	if err := w.initWorld(); err != nil {
		sv.Close()
		return nil, err
	}
	return w, nil
}

func (w *worker) loop() {
	for {
		prefix, ok := w.ex.pop()
		if !ok {
			return
		}
		w.runPath(prefix)
		w.ex.done()
	}
}

// ---- one path ----

func (w *worker) resetPath(prefix []int64) {
	w.prefix = prefix
	w.pos = 0
	w.trace = w.trace[:0]
	w.pc = w.pc[:0]
	w.inputs = w.inputs[:0]
	w.names = map[string]int{}
	w.steps = 0
	w.tainted = false
	w.reached = map[string]bool{}
	w.roActive = false
	w.roCells, w.roMaps = nil, nil
	w.allocLimit = 0
	w.decoderResults = nil
	w.files = nil
	w.permute = 0
	w.permDone = false
	w.permUsed = false
	w.noPanicDepth = 0
	w.ptrIDs = nil
	w.cmodel = map[*Term]uint64{}
	w.modelOK = true // the empty path condition is satisfied by the all-zero assignment
	w.known = map[*Term]bool{}
	w.dom = map[*Term]*domain{}
	w.csp = w.csp[:0]
	w.witness = nil
	w.smallTainted = false
}

// evalUnder evaluates a boolean term under the cached model.
func (w *worker) evalUnder(t *Term) (val bool, ok bool) {
	if !w.modelOK {
		return false, false
	}
	e := evalCtx{vals: w.cmodel, memo: map[*Term]uint64{}, ok: true}
	v := e.eval(t)
	return v != 0, e.ok
}

func (w *worker) inputTerms() []*Term {
	vars := make([]*Term, 0, len(w.inputs))
	for _, in := range w.inputs {
		if !in.isChoice {
			vars = append(vars, in.term)
		}
	}
	return vars
}

func (w *worker) setModel(vars []*Term, m []uint64) {
	if m == nil {
		return
	}
	w.cmodel = make(map[*Term]uint64, len(vars))
	for i, v := range vars {
		w.cmodel[v] = m[i]
	}
	w.modelOK = true
}

// checkM decides PC ∧ t; on sat the satisfying assignment becomes the cached model if keep is set.
func (w *worker) checkM(t *Term, keep bool) SatResult {
	if !keep {
		return w.solver.Check(t)
	}
	vars := w.inputTerms()
	r, m := w.solver.CheckWithModel(t, vars)
	if r == Sat {
		w.setModel(vars, m)
	}
	return r
}

func (w *worker) learn(t *Term, val bool) {
	w.known[t] = val
	switch t.op {
	case OpNot:
		w.learn(t.a[0], !val)
	case OpAnd:
		if val {
			w.learn(t.a[0], true)
			w.learn(t.a[1], true)
		}
	case OpOr:
		if !val {
			w.learn(t.a[0], false)
			w.learn(t.a[1], false)
		}
	}
}

func (w *worker) runPath(prefix []int64) {
	internBeginPath()
	defer internEndPath()
	w.resetPath(prefix)
	w.solver.BeginPath()
	w.ip.sched = newSched()
	w.ip.sched.w = w
	w.schedAll = false
	w.schedEager = false
	completed := false
	func() {
		defer func() {
			if r := recover(); r != nil {
				w.handleTop(r)
			}
		}()
		w.resetGlobals()
		w.steps = 0
		callSSA(w.ip, nil, 0, w.ex.fn, nil, nil)
		w.ip.sched.finish(w)
		completed = true
		// guard for the query-avoiding shortcuts (model cache, finite domains, known
		// atoms): the path condition of every completed path must be satisfiable
		// according to the SMT solver itself
		if len(w.pc) > 0 && w.ex.cfg.Concrete == nil {
			w.st.PCChecks++
			if w.solver.Check(nil) == Unsat {
				w.st.EngineErrors["completed path has an unsatisfiable path condition (shortcut unsound)"]++
			}
		}
	}()
	w.ip.sched.killAll()
	w.solver.EndPath()
	w.st.Steps += w.steps
	if w.steps > w.st.MaxPathSteps {
		w.st.MaxPathSteps = w.steps
	}
	if len(w.inputs) > w.st.MaxInputs {
		w.st.MaxInputs = len(w.inputs)
	}
	if completed {
		w.st.Paths++
		for l := range w.reached {
			w.st.Reach[l]++
		}
	}
}

// handleTop classifies whatever escaped the harness function.
func (w *worker) handleTop(r interface{}) {
	switch r := r.(type) {
	case pathAbort:
		switch r.kind {
		case abAssume:
			w.st.AssumedAway++
		case abBound:
			w.st.BoundHits[r.msg]++
		case abUnsupported:
			msg := r.msg
			if debugUnsupported && w.cur != nil {
				msg += " @ " + strings.Join(w.stack(w.cur), " < ")
			}
			w.st.Unsupported[msg]++
		case abEngine:
			w.st.EngineErrors[r.msg]++
		case abStop, abTarget:
			w.st.Paths++
		}
	case killG:
		if ab := w.ip.sched.abort; ab != nil {
			w.handleTop(*ab)
			return
		}
		w.st.EngineErrors["main goroutine killed without reason"]++
	case targetPanic:
		// a panic escaped the whole harness (outside any NoPanic region)
		w.finding("uncaught-panic", "panic", panicMessage(w, r), nil)
		w.st.Paths++
	case runtimeError:
		w.finding("uncaught-panic", "panic", r.Error(), nil)
		w.st.Paths++
	default:
		w.st.EngineErrors[fmt.Sprintf("engine panic: %v", r)]++
	}
}

func panicMessage(w *worker, p interface{}) string {
	switch p := p.(type) {
	case targetPanic:
		return "panic: " + w.describe(p.v)
	case runtimeError:
		return "panic: " + p.Error()
	}
	return fmt.Sprint(p)
}

// describe renders a target value (error / Stringer / plain) for messages, best effort.
func (w *worker) describe(v value) string {
	defer func() { recover() }()
	if itf, ok := v.(iface); ok {
		if itf.t == nil {
			return "<nil>"
		}
		if s, ok := callStringMethod(w.ip, itf, "Error"); ok {
			return s
		}
		if s, ok := callStringMethod(w.ip, itf, "String"); ok {
			return s
		}
		return toString(itf.v)
	}
	return toString(v)
}

func (w *worker) classifyPanic(fr *frame, r interface{}) interface{} {
	switch r := r.(type) {
	case targetPanic, runtimeError:
		return r
	case runtime.Error:
		buf := make([]byte, 4096)
		buf = buf[:runtime.Stack(buf, false)]
		w.engineError(fmt.Sprintf("host runtime error in %s: %v\n%s", fr.fn, r, buf))
	case string:
		w.engineError(fmt.Sprintf("engine panic in %s: %s", fr.fn, r))
	}
	w.engineError(fmt.Sprintf("engine panic in %s: %v", fr.fn, r))
	return nil
}

func (w *worker) abort(kind abortKind, msg string) {
	ab := pathAbort{kind, msg}
	if s := w.ip.sched; s != nil && s.cur != nil && s.cur.id != 0 {
		// abort raised on a non-main goroutine: hand it to main
		s.abort = &ab
		s.dead = true
		panic(killG{})
	}
	panic(ab)
}

func (w *worker) unsupported(msg string) { w.abort(abUnsupported, msg) }
func (w *worker) engineError(msg string) {
	if len(msg) > 600 {
		msg = msg[:600]
	}
	w.abort(abEngine, msg)
}

func (w *worker) boundHit(what string, fr *frame) {
	if what == "call-depth" || what == "steps" {
		// "does not return" may itself be the property (C07/C08): report as a finding candidate too
		w.finding("bound:"+what, "hang", what+" bound exceeded in "+fr.fn.String(), fr)
	}
	w.abort(abBound, what)
}

func (w *worker) enter(fr *frame) {
	if fr.info.ucfg {
		if !w.st.Functions[fr.info.name] {
			w.st.Functions[fr.info.name] = true
		}
	}
}

// ---- decisions ----

func (w *worker) addPC(t *Term) {
	if t.isConst() {
		return
	}
	w.pc = append(w.pc, t)
	w.solver.Assert(t)
	w.learn(t, true)
	wasOK := w.modelOK
	w.noteConstraint(t)
	if wasOK {
		if v, ok := w.evalUnder(t); !ok || !v {
			w.modelOK = false
		}
	}
}

func (w *worker) pushAlt(d int64) {
	alt := make([]int64, len(w.trace)+1)
	copy(alt, w.trace)
	alt[len(w.trace)] = d
	w.ex.push(alt)
	w.st.Forks++
}

// branch decides a symbolic condition, forking when both sides are feasible.
func (w *worker) branch(c *Term) bool {
	if c.isConst() {
		return c.k != 0
	}
	if v, ok := w.known[c]; ok {
		// follows syntactically from the path condition: no decision, no query
		return v
	}
	if w.pos < len(w.prefix) {
		d := w.prefix[w.pos]
		w.pos++
		w.trace = append(w.trace, d)
		if d == 1 {
			w.addPC(c)
			return true
		}
		w.addPC(tNot(c))
		return false
	}
	w.st.Decisions++
	nc := tNot(c)
	var rT, rF SatResult
	if cT, cF, ok := w.domainDecide(c); ok {
		rT, rF = Unsat, Unsat
		if cT {
			rT = Sat
		}
		if cF {
			rF = Sat
		}
	} else if v, ok := w.evalUnder(c); ok {
		// the cached model satisfies PC, so the side it takes is feasible
		if v {
			rT = Sat
			rF = w.solver.Check(nc)
		} else {
			rF = Sat
			rT = w.solver.Check(c)
		}
	} else {
		rT = w.checkM(c, true)
		if rT == Unsat {
			rF = Sat
		} else {
			rF = w.solver.Check(nc)
		}
	}
	if rT == Unsat && rF == Unsat {
		w.engineError("path condition became unsatisfiable")
	}
	switch {
	case rT != Unsat && rF != Unsat:
		// take the side the cached model is on (keeps the cache valid)
		take := true
		if v, ok := w.evalUnder(c); ok && !v {
			take = false
		}
		if take {
			w.pushAlt(0)
			w.trace = append(w.trace, 1)
			w.pos++
			w.addPC(c)
			return true
		}
		w.pushAlt(1)
		w.trace = append(w.trace, 0)
		w.pos++
		w.addPC(nc)
		return false
	case rT != Unsat:
		w.trace = append(w.trace, 1)
		w.pos++
		w.addPC(c)
		return true
	default:
		w.trace = append(w.trace, 0)
		w.pos++
		w.addPC(nc)
		return false
	}
}

// truth converts a (possibly symbolic) bool to a concrete control decision.
func (w *worker) truth(v value) bool {
	switch v := v.(type) {
	case bool:
		return v
	case sym:
		return w.branch(v.t)
	}
	panic(fmt.Sprintf("truth(%T)", v))
}

// choose makes an n-way structural decision (no solver involved).
func (w *worker) choose(n int) int {
	if n <= 1 {
		return 0
	}
	if w.pos < len(w.prefix) {
		d := w.prefix[w.pos]
		w.pos++
		w.trace = append(w.trace, d)
		return int(d)
	}
	w.st.Choices++
	for k := n - 1; k >= 1; k-- {
		w.pushAlt(int64(k))
	}
	w.trace = append(w.trace, 0)
	w.pos++
	return 0
}

const maxConcretize = 64

// concretize enumerates the feasible values of t and forks over them.
func (w *worker) concretize(t *Term) uint64 {
	v, _ := w.concretizeLimit(t, maxConcretize, false)
	return v
}

// concretizeLimit enumerates up to limit feasible values of t and forks over
// them. With soft set, more than limit values is not an error: nothing is
// decided and ok is false.
func (w *worker) concretizeLimit(t *Term, limit int, soft bool) (val uint64, ok bool) {
	if t.isConst() {
		return t.k, true
	}
	if w.pos < len(w.prefix) {
		d := uint64(w.prefix[w.pos])
		if soft && int64(d) == softNone {
			w.pos++
			w.trace = append(w.trace, softNone)
			return 0, false
		}
		w.pos++
		w.trace = append(w.trace, int64(d))
		w.addPC(tEq(t, mkConst(t.sort, d)))
		return d, true
	}
	w.st.Decisions++
	var vals []uint64
	block := tTrue
	if soft && t.sort.isBV() && t.sort.width() > 8 {
		// cheap pre-test: a value far away from a first model means "too many values"
		// (staying symbolic is always sound)
		if res, m := w.solver.CheckWithModel(nil, []*Term{t}); res == Sat {
			v0 := mkConst(t.sort, m[0])
			lim := mkConst(t.sort, uint64(limit))
			far := tAnd(tBVCmp(OpBVULt, lim, tBV(OpBVSub, t, v0)), tBVCmp(OpBVULt, lim, tBV(OpBVSub, v0, t)))
			if w.solver.Check(far) != Unsat {
				w.trace = append(w.trace, softNone)
				w.pos++
				return 0, false
			}
		}
	}
	for {
		res, m := w.solver.CheckWithModel(block, []*Term{t})
		if res == Unknown {
			if soft {
				w.trace = append(w.trace, softNone)
				w.pos++
				return 0, false
			}
			w.unsupported("solver unknown while concretising a symbolic value")
		}
		if res == Unsat {
			break
		}
		v := m[0]
		vals = append(vals, v)
		if len(vals) > limit {
			if soft {
				// recorded as a decision so that re-execution takes the same route
				w.trace = append(w.trace, softNone)
				w.pos++
				return 0, false
			}
			w.unsupported(fmt.Sprintf("symbolic value with more than %d feasible concrete values where a concrete one is required", limit))
		}
		block = tAnd(block, tNot(tEq(t, mkConst(t.sort, v))))
	}
	if len(vals) == 0 {
		w.engineError("concretize: no feasible value")
	}
	sort.Slice(vals, func(i, j int) bool { return vals[i] < vals[j] })
	for k := len(vals) - 1; k >= 1; k-- {
		w.pushAlt(int64(vals[k]))
	}
	w.trace = append(w.trace, int64(vals[0]))
	w.pos++
	w.addPC(tEq(t, mkConst(t.sort, vals[0])))
	return vals[0], true
}

// softNone marks "too many values, left symbolic" in the decision vector. It
// cannot collide with an enumerated value on the same position, because a
// position either enumerates or does not.
const softNone = int64(-0x5eed5eed5eed)

func (w *worker) concrete(v value) value {
	if s, ok := v.(sym); ok {
		return constToValue(s.k, w.concretize(s.t))
	}
	return v
}

// index bounds-checks idx against n (forking on out-of-range for symbolic idx)
// and returns a concrete index.
func (w *worker) index(idx value, n int) int {
	if s, ok := idx.(sym); ok {
		var inb *Term
		nn := mkConst(s.t.sort, uint64(n))
		if kindSigned(s.k) {
			inb = tAnd(tBVCmp(OpBVSLe, mkConst(s.t.sort, 0), s.t), tBVCmp(OpBVSLt, s.t, nn))
		} else {
			inb = tBVCmp(OpBVULt, s.t, nn)
		}
		if !w.branch(inb) {
			panic(runtimeError(fmt.Sprintf("index out of range [symbolic] with length %d", n)))
		}
		return int(asInt64(w.concrete(idx)))
	}
	i := asInt64(idx)
	if i < 0 {
		panic(runtimeError(fmt.Sprintf("index out of range [%d]", i)))
	}
	if i >= int64(n) {
		panic(runtimeError(fmt.Sprintf("index out of range [%d] with length %d", i, n)))
	}
	return int(i)
}

// selectScalar returns a[idx] for a table of scalars and a symbolic index, as one term.
func (w *worker) selectScalar(a array, idx sym) value {
	n := len(a)
	nn := mkConst(idx.t.sort, uint64(n))
	var inb *Term
	if kindSigned(idx.k) {
		inb = tAnd(tBVCmp(OpBVSLe, mkConst(idx.t.sort, 0), idx.t), tBVCmp(OpBVSLt, idx.t, nn))
	} else {
		inb = tBVCmp(OpBVULt, idx.t, nn)
	}
	if !w.branch(inb) {
		panic(runtimeError(fmt.Sprintf("index out of range [symbolic] with length %d", n)))
	}
	_, k := termOf(a[0])
	terms := make([]*Term, n)
	for i := range a {
		terms[i], _ = termOf(a[i])
	}
	same := func(x, y *Term) bool { return x == y || (x.isConst() && y.isConst() && x.k == y.k) }
	// runs of equal values, folded from the end
	res := terms[n-1]
	i := n - 1
	for i > 0 && same(terms[i-1], terms[n-1]) {
		i--
	}
	for i > 0 {
		j := i - 1
		lo := j
		for lo > 0 && same(terms[lo-1], terms[j]) {
			lo--
		}
		var c *Term
		if lo == j {
			c = tEq(idx.t, mkConst(idx.t.sort, uint64(j)))
		} else {
			c = tAnd(tBVCmp(OpBVULe, mkConst(idx.t.sort, uint64(lo)), idx.t), tBVCmp(OpBVULe, idx.t, mkConst(idx.t.sort, uint64(j))))
		}
		res = tIte(c, terms[j], res)
		i = lo
	}
	return mkSym(k, res)
}

// ---- symbolic inputs ----

func (w *worker) uniqueName(name string) string {
	if n, ok := w.names[name]; ok {
		w.names[name] = n + 1
		return fmt.Sprintf("%s#%d", name, n+1)
	}
	w.names[name] = 1
	return name
}

func (w *worker) newInput(name string, k types.BasicKind) value {
	name = w.uniqueName(name)
	if w.ex.cfg.Concrete != nil {
		if s, ok := w.ex.cfg.Concrete[name]; ok {
			return parseModelValue(k, s)
		}
		return constToValue(k, 0)
	}
	t := mkVar(kindSort(k), name)
	w.inputs = append(w.inputs, &inputVar{Name: name, Kind: k, term: t})
	return sym{k, t}
}

func (w *worker) newChoice(name string, n int) int {
	name = w.uniqueName(name)
	if w.ex.cfg.Concrete != nil {
		if s, ok := w.ex.cfg.Concrete[name]; ok {
			v, _ := strconv.ParseInt(s, 10, 64)
			return int(v)
		}
		return 0
	}
	k := w.choose(n)
	w.inputs = append(w.inputs, &inputVar{Name: name, Kind: types.Int, isChoice: true, choice: int64(k)})
	return k
}

func formatModelValue(k types.BasicKind, bits uint64) string {
	switch k {
	case types.Bool:
		if bits != 0 {
			return "true"
		}
		return "false"
	case types.Float32, types.Float64:
		return fmt.Sprintf("0x%x", bits)
	}
	if kindSigned(k) {
		return strconv.FormatInt(sext(bits, kindSort(k).width()), 10)
	}
	return strconv.FormatUint(bits&mask(kindSort(k).width()), 10)
}

func parseModelValue(k types.BasicKind, s string) value {
	switch k {
	case types.Bool:
		return s == "true"
	case types.Float32, types.Float64:
		b, _ := strconv.ParseUint(strings.TrimPrefix(s, "0x"), 16, 64)
		return constToValue(k, b)
	}
	if kindSigned(k) {
		v, _ := strconv.ParseInt(s, 10, 64)
		return constToValue(k, uint64(v))
	}
	v, _ := strconv.ParseUint(s, 10, 64)
	return constToValue(k, v)
}

// model asks the solver for values of all inputs under PC ∧ extra.
func (w *worker) model(extra *Term) (SatResult, map[string]string) {
	var vars []*Term
	for _, in := range w.inputs {
		if !in.isChoice {
			vars = append(vars, in.term)
		}
	}
	res, m := w.solver.CheckWithModel(extra, vars)
	if res != Sat {
		return res, nil
	}
	out := map[string]string{}
	j := 0
	for _, in := range w.inputs {
		if in.isChoice {
			out[in.Name] = strconv.FormatInt(in.choice, 10)
		} else {
			out[in.Name] = formatModelValue(in.Kind, m[j])
			j++
		}
	}
	return Sat, out
}

// ---- findings ----

func (w *worker) stack(fr *frame) []string {
	var out []string
	for f := fr; f != nil && len(out) < 12; f = f.caller {
		out = append(out, f.fn.String())
	}
	return out
}

// finding records a potential violation with a model of the current path condition.
func (w *worker) finding(label, kind, msg string, fr *frame) {
	w.findingUnder(nil, label, kind, msg, fr)
}

func (w *worker) findingUnder(extra *Term, label, kind, msg string, fr *frame) {
	w.st.FindingCount[label]++
	n := 0
	for _, f := range w.st.Findings {
		if f.Label == label {
			n++
		}
	}
	if n >= w.ex.cfg.MaxFindingsPerLabel {
		return
	}
	res, vals := w.model(extra)
	if res != Sat {
		if w.ex.cfg.Concrete != nil {
			vals = w.ex.cfg.Concrete
		} else {
			w.st.EngineErrors["no model for finding "+label+" ("+res.String()+")"]++
			return
		}
	}
	f := &Finding{Harness: w.ex.cfg.Harness, Label: label, Kind: kind, Msg: msg, Values: vals, Decisions: append([]int64(nil), w.trace...), Tainted: w.tainted, MapOrder: w.permUsed}
	if fr != nil {
		f.Stack = w.stack(fr)
	}
	w.st.Findings = append(w.st.Findings, f)
}

// assertCond checks the property obligation c on the current path.
func (w *worker) assertCond(c value, label string, fr *frame) {
	w.st.Obligations++
	switch c := c.(type) {
	case bool:
		if c {
			w.st.Discharged++
			return
		}
		w.finding(label, "assert", "assertion is false on this path for every input", fr)
		w.abort(abStop, "assertion failed")
	case sym:
		if v, ok := w.known[c.t]; ok && v {
			w.st.Discharged++
			return
		}
		neg := tNot(c.t)
		res := w.solver.Check(neg)
		switch res {
		case Unsat:
			w.st.Discharged++
		case Unknown:
			w.st.Unsupported["solver unknown on assertion "+label]++
		case Sat:
			w.findingUnder(neg, label, "assert", "assertion can be false", fr)
			// continue with the inputs on which it holds
			if w.solver.Check(c.t) == Unsat {
				w.abort(abStop, "assertion failed")
			}
		}
		w.addPC(c.t)
	}
}

func (w *worker) assume(c value, why string) {
	switch c := c.(type) {
	case bool:
		if !c {
			w.abort(abAssume, why)
		}
	case sym:
		if w.pos < len(w.prefix) {
			// assumptions are not decisions; the prefix guarantees feasibility
			w.addPC(c.t)
			return
		}
		if v, ok := w.known[c.t]; ok {
			if !v {
				w.abort(abAssume, why)
			}
			return
		}
		if cT, _, ok := w.domainDecide(c.t); ok {
			if !cT {
				w.abort(abAssume, why)
			}
		} else if v, ok := w.evalUnder(c.t); !(ok && v) {
			if w.checkM(c.t, true) == Unsat {
				w.abort(abAssume, why)
			}
		}
		w.addPC(c.t)
	}
}

func (w *worker) reach(label string) {
	if !w.reached[label] {
		w.reached[label] = true
		if _, ok := w.st.ReachSample[label]; !ok {
			if res, vals := w.model(nil); res == Sat {
				w.st.ReachSample[label] = vals
			}
		}
	}
}

// orderMapEntries applies the engine's map iteration policy.
func (w *worker) orderMapEntries(es []omapEntry) []omapEntry {
	if w.permute == 0 || len(es) < 2 {
		return es
	}
	if w.permute == 2 {
		// single-site mode: this iteration is the permuted one, or a later one is
		if w.permDone || w.choose(2) == 0 {
			return es
		}
		w.permDone = true
	}
	w.permUsed = true
	// choose a permutation: n-way choice for the first, n-1 for the second, ...
	out := make([]omapEntry, 0, len(es))
	rest := append([]omapEntry(nil), es...)
	for len(rest) > 1 {
		k := w.choose(len(rest))
		out = append(out, rest[k])
		rest = append(rest[:k], rest[k+1:]...)
	}
	return append(out, rest...)
}

// ---- monitors ----

func (w *worker) onWrite(fr *frame, addr *value) {
	if w.roActive && w.roCells[addr] {
		w.finding("readonly:"+w.roLabel, "write", "store to memory reachable from the read-only roots in "+fr.fn.String(), fr)
		w.roActive = false // one finding per path
	}
}

func (w *worker) onMapWrite(fr *frame, m *omap) {
	if w.roActive && w.roMaps[m] {
		w.finding("readonly:"+w.roLabel, "write", "map update on a map reachable from the read-only roots in "+fr.fn.String(), fr)
		w.roActive = false
	}
}

func (w *worker) onAlloc(fr *frame, n int64) {
	if w.allocLimit > 0 && n > w.allocLimit && fr != nil && fr.info.ucfg {
		w.finding("alloc-limit", "alloc", fmt.Sprintf("allocation of %d slots exceeds the limit %d in %s", n, w.allocLimit, fr.fn), fr)
	}
}

// allocSize turns an allocation size into a concrete number; for a symbolic
// size "negative" and "above the allocation limit" are solver-decided forks
// (a target panic and an allocation finding respectively), the rest is
// enumerated.
func (w *worker) allocSize(fr *frame, v value) int64 {
	s, ok := v.(sym)
	if !ok {
		return asInt64(v)
	}
	zero := mkConst(s.t.sort, 0)
	if kindSigned(s.k) && w.branch(tBVCmp(OpBVSLt, s.t, zero)) {
		panic(runtimeError("makeslice: len out of range"))
	}
	if w.allocLimit > 0 && fr.info.ucfg {
		if w.branch(tBVCmp(OpBVULt, mkConst(s.t.sort, uint64(w.allocLimit)), s.t)) {
			// prefer a model whose size is natively observable (tens of megabytes)
			big := tAnd(tBVCmp(OpBVULt, mkConst(s.t.sort, 1<<21), s.t), tBVCmp(OpBVULt, s.t, mkConst(s.t.sort, 1<<25)))
			msg := fmt.Sprintf("allocation of more than %d slots in %s", w.allocLimit, fr.fn)
			if w.solver.Check(big) == Sat {
				w.findingUnder(big, "alloc-limit", "alloc", msg, fr)
			} else {
				w.finding("alloc-limit", "alloc", msg+" (small overshoot: engine-observed only)", fr)
			}
			w.abort(abStop, "allocation beyond the limit")
		}
	}
	return asInt64(w.concrete(v))
}

// collectReachable walks the heap from v, recording every cell and map.
func collectReachable(v value, cells map[*value]bool, maps map[*omap]bool, seenSlices map[*value]bool) {
	switch v := v.(type) {
	case *value:
		if v == nil || cells[v] {
			return
		}
		cells[v] = true
		collectInner(v, cells, maps, seenSlices)
	case iface:
		collectReachable(v.v, cells, maps, seenSlices)
	case structure:
		for i := range v {
			cells[&v[i]] = true
			collectInner(&v[i], cells, maps, seenSlices)
		}
	case array:
		for i := range v {
			cells[&v[i]] = true
			collectInner(&v[i], cells, maps, seenSlices)
		}
	case []value:
		full := v[:cap(v)]
		if len(full) == 0 {
			return
		}
		if seenSlices[&full[0]] {
			return
		}
		seenSlices[&full[0]] = true
		for i := range full {
			cells[&full[i]] = true
			collectInner(&full[i], cells, maps, seenSlices)
		}
	case *omap:
		if v == nil || maps[v] {
			return
		}
		maps[v] = true
		for i := range v.ents {
			if !v.ents[i].deleted {
				collectReachable(v.ents[i].k, cells, maps, seenSlices)
				collectReachable(v.ents[i].v, cells, maps, seenSlices)
			}
		}
	case *closure:
		for _, e := range v.Env {
			collectReachable(e, cells, maps, seenSlices)
		}
	case rval:
		collectReachable(v.v, cells, maps, seenSlices)
	}
}

func collectInner(c *value, cells map[*value]bool, maps map[*omap]bool, seenSlices map[*value]bool) {
	switch x := (*c).(type) {
	case structure, array, []value, *value, iface, *omap, *closure, rval:
		collectReachable(x, cells, maps, seenSlices)
	}
}

// RunConcrete interprets a niladic function returning a string, without
// symbolic inputs (conformance runs).
func (p *program) RunConcrete(name string, trace bool) (res string, err error) {
	fn := p.harnessFunc(name)
	if fn == nil {
		return "", fmt.Errorf("function %q not found", name)
	}
	ex := &Explorer{prog: p, cfg: Config{Harness: name, MaxSteps: 200_000_000, MaxDepth: 400, SolverKind: "z3", SolverTOms: 10000, Concrete: map[string]string{}, Trace: trace}, fn: fn, stats: newStats(name)}
	ex.cond = sync.NewCond(&ex.mu)
	w, err := ex.newWorker(0)
	if err != nil {
		return "", err
	}
	defer w.solver.Close()
	w.resetPath(nil)
	w.solver.BeginPath()
	w.ip.sched = newSched()
	defer func() {
		if r := recover(); r != nil {
			err = fmt.Errorf("engine run of %s failed: %s", name, describeAbort(r))
		}
		w.ip.sched.killAll()
	}()
	w.resetGlobals()
	v := callSSA(w.ip, nil, 0, fn, nil, nil)
	w.ip.sched.finish(w)
	s, ok := v.(string)
	if !ok {
		return "", fmt.Errorf("%s returned %T, not a concrete string", name, v)
	}
	return s, nil
}
