package interp

// Driver for one persistent SMT solver process (z3 -in by default), spoken to
// in SMT-LIB2 over a pipe. One Solver per worker. Every path runs inside its
// own (push)/(pop) scope; branch feasibility and assertion queries use
// check-sat-assuming over named boolean definitions.

import (
	"bufio"
	"fmt"
	"io"
	"os"
	"os/exec"
	"strconv"
	"strings"
	"time"
)

type SatResult int

const (
	Unsat SatResult = iota
	Sat
	Unknown
)

func (r SatResult) String() string {
	return [...]string{"unsat", "sat", "unknown"}[r]
}

type Solver struct {
	name    string
	cmd     *exec.Cmd
	in      io.WriteCloser
	out     *bufio.Reader
	buf     strings.Builder
	log     strings.Builder
	decls   strings.Builder // declarations, definitions and assertions of the current path scope
	OneShot int             // queries re-decided by a fresh non-incremental solver run
	incrTO  int
	defined map[*Term]string // terms defined in the solver (persistent across paths: definitions are only names)
	nextID  int
	inScope bool
	timeout int // ms per query
	pcNames []string // names of the current path's assertions (passed as assumptions)
	pcTerms []*Term
	paths   int
	pcFP    bool // the path condition contains floating-point terms
	proxies map[*Term]string // activation literals: (assert (=> p t)), persistent like the definitions

	// statistics
	Queries, NSat, NUnsat, NUnknown int
	Time                            time.Duration
	Errors                          []string
}

func solverArgs(kind string) (string, []string) {
	switch kind {
	case "z3-new":
		return "z3-new", []string{"-in"}
	case "cvc5":
		return "cvc5", []string{"--incremental", "--lang=smt2", "--produce-models", "--fp-exp"}
	}
	return "z3", []string{"-in"}
}

func NewSolver(kind string, timeoutMs int) (*Solver, error) {
	bin, args := solverArgs(kind)
	cmd := exec.Command(bin, args...)
	in, err := cmd.StdinPipe()
	if err != nil {
		return nil, err
	}
	outp, err := cmd.StdoutPipe()
	if err != nil {
		return nil, err
	}
	cmd.Stderr = nil
	if err := cmd.Start(); err != nil {
		return nil, err
	}
	s := &Solver{name: kind, cmd: cmd, in: in, out: bufio.NewReaderSize(outp, 1<<16), defined: map[*Term]string{}, timeout: timeoutMs}
	if kind == "cvc5" {
		s.send("(set-logic ALL)\n")
		s.send(fmt.Sprintf("(set-option :tlimit-per %d)\n", timeoutMs))
	} else {
		s.send("(set-option :produce-models true)\n")
		incr := timeoutMs
		if incr > 2500 {
			incr = 2500
		}
		s.send(fmt.Sprintf("(set-option :timeout %d)\n", incr))
	}
	return s, nil
}

func (s *Solver) Close() {
	if s == nil || s.cmd == nil {
		return
	}
	s.in.Close()
	s.cmd.Process.Kill()
	s.cmd.Wait()
	s.cmd = nil
}

var smtLogDir = os.Getenv("GOSYM_SMTLOG")

func (s *Solver) send(cmd string) {
	s.buf.WriteString(cmd)
	if smtLogDir != "" {
		s.log.WriteString(cmd)
	}
}

func (s *Solver) dumpLog(tag string) {
	if smtLogDir != "" {
		os.WriteFile(fmt.Sprintf("%s/%s-%d-%d.smt2", smtLogDir, tag, os.Getpid(), s.Queries), []byte(s.log.String()), 0o644)
	}
}

var smtTee = os.Getenv("GOSYM_SMTTEE")

func (s *Solver) flush() {
	if smtTee != "" && s.buf.Len() > 0 {
		f, _ := os.OpenFile(fmt.Sprintf("%s.%p", smtTee, s), os.O_APPEND|os.O_CREATE|os.O_WRONLY, 0o644)
		f.WriteString(s.buf.String())
		f.Close()
	}
	if s.buf.Len() > 0 {
		io.WriteString(s.in, s.buf.String())
		s.buf.Reset()
	}
}

// BeginPath starts a new path: the path condition is kept as a list of named
// boolean definitions that are passed as assumptions to every query, so that
// term definitions survive from path to path (they are only abbreviations).
func (s *Solver) BeginPath() {
	s.pcNames = s.pcNames[:0]
	s.pcTerms = s.pcTerms[:0]
	s.pcFP = false
	s.log.Reset()
	s.paths++
	if len(s.defined) > 300000 || len(s.proxies) > 100000 {
		s.restart()
	}
	s.inScope = true
}

func (s *Solver) EndPath() {
	s.inScope = false
}

func (s *Solver) restart() {
	kind := s.name
	s.buf.Reset()
	if s.cmd != nil {
		s.in.Close()
		s.cmd.Process.Kill()
		s.cmd.Wait()
	}
	n, err := NewSolver(kind, s.timeout)
	if err != nil {
		s.Errors = append(s.Errors, "(error \"cannot restart solver: "+err.Error()+"\")")
		return
	}
	s.cmd, s.in, s.out = n.cmd, n.in, n.out
	s.buf.Reset()
	s.buf.WriteString(n.buf.String())
	s.defined = map[*Term]string{}
	s.proxies = map[*Term]string{}
	s.nextID = 0
}

func quoteSym(n string) string {
	return "|" + strings.NewReplacer("|", "!", "\\", "!").Replace(n) + "|"
}

// ref returns an expression naming t, defining it (and its descendants) first when large.
func (s *Solver) ref(t *Term) string {
	switch t.op {
	case OpConst:
		return constSMT(t)
	case OpVar:
		if n, ok := s.defined[t]; ok {
			return n
		}
		n := quoteSym(t.name)
		s.sendDecl(fmt.Sprintf("(declare-const %s %s)\n", n, t.sort.smt()))
		s.defined[t] = n
		return n
	}
	if n, ok := s.defined[t]; ok {
		return n
	}
	// iterative post-order over undefined internal nodes
	type item struct {
		t    *Term
		next int
	}
	stack := []item{{t, 0}}
	for len(stack) > 0 {
		it := &stack[len(stack)-1]
		if it.next < len(it.t.a) {
			c := it.t.a[it.next]
			it.next++
			if c.op != OpConst {
				if _, ok := s.defined[c]; !ok {
					if c.op == OpVar {
						s.ref(c)
					} else {
						stack = append(stack, item{c, 0})
					}
				}
			}
			continue
		}
		cur := it.t
		stack = stack[:len(stack)-1]
		if _, ok := s.defined[cur]; ok {
			continue
		}
		body := smtBody(cur, func(x *Term) string {
			if x.op == OpConst {
				return constSMT(x)
			}
			return s.defined[x]
		})
		n := "%t" + strconv.Itoa(s.nextID)
		s.nextID++
		s.sendDecl(fmt.Sprintf("(define-fun %s () %s %s)\n", n, cur.sort.smt(), body))
		s.defined[cur] = n
	}
	return s.defined[t]
}

// Assert adds t to the path condition.
func (s *Solver) Assert(t *Term) {
	if t.isConst() && t.k != 0 {
		return
	}
	s.pcNames = append(s.pcNames, s.proxy(t))
	s.pcTerms = append(s.pcTerms, t)
	if t.fp {
		s.pcFP = true
	}
}

// direct reports whether a query should skip the incremental solver: z3's
// incremental core is very slow on floating-point obligations.
func (s *Solver) direct(extra *Term) bool {
	return (extra != nil && extra.fp) || s.pcFP
}

func (s *Solver) sendDecl(cmd string) { s.send(cmd) }

// proxy returns a boolean constant p with (=> p t) asserted once; assumptions
// must be plain literals for the incremental core to work efficiently, and
// because terms are hash-consed the same proxy serves every path that shares
// the constraint.
func (s *Solver) proxy(t *Term) string {
	if s.proxies == nil {
		s.proxies = map[*Term]string{}
	}
	if p, ok := s.proxies[t]; ok {
		return p
	}
	n := s.ref(t)
	if t.op == OpVar {
		s.proxies[t] = n
		return n
	}
	p := "%p" + strconv.Itoa(len(s.proxies))
	s.send("(declare-const " + p + " Bool)(assert (=> " + p + " " + n + "))\n")
	s.proxies[t] = p
	return p
}

func (s *Solver) assumptions(extra *Term) string {
	var sb strings.Builder
	for i, n := range s.pcNames {
		if i > 0 {
			sb.WriteByte(' ')
		}
		sb.WriteString(n)
	}
	if extra != nil {
		if len(s.pcNames) > 0 {
			sb.WriteByte(' ')
		}
		sb.WriteString(s.proxy(extra))
	}
	return sb.String()
}

// script renders a standalone SMT-LIB script asserting the given terms.
func script(terms []*Term, vars []*Term) (string, []string) {
	var sb strings.Builder
	defined := map[*Term]string{}
	id := 0
	var ref func(t *Term) string
	ref = func(t *Term) string {
		if t.op == OpConst {
			return constSMT(t)
		}
		if n, ok := defined[t]; ok {
			return n
		}
		if t.op == OpVar {
			n := quoteSym(t.name)
			sb.WriteString(fmt.Sprintf("(declare-const %s %s)\n", n, t.sort.smt()))
			defined[t] = n
			return n
		}
		type item struct {
			t    *Term
			next int
		}
		stack := []item{{t, 0}}
		for len(stack) > 0 {
			it := &stack[len(stack)-1]
			if it.next < len(it.t.a) {
				c := it.t.a[it.next]
				it.next++
				if c.op != OpConst {
					if _, ok := defined[c]; !ok {
						if c.op == OpVar {
							ref(c)
						} else {
							stack = append(stack, item{c, 0})
						}
					}
				}
				continue
			}
			cur := it.t
			stack = stack[:len(stack)-1]
			if _, ok := defined[cur]; ok {
				continue
			}
			body := smtBody(cur, func(x *Term) string {
				if x.op == OpConst {
					return constSMT(x)
				}
				return defined[x]
			})
			n := "%t" + strconv.Itoa(id)
			id++
			sb.WriteString(fmt.Sprintf("(define-fun %s () %s %s)\n", n, cur.sort.smt(), body))
			defined[cur] = n
		}
		return defined[t]
	}
	for _, t := range terms {
		sb.WriteString("(assert " + ref(t) + ")\n")
	}
	names := make([]string, len(vars))
	for i, v := range vars {
		names[i] = ref(v)
	}
	return sb.String(), names
}

// oneShot re-decides a query with a fresh, non-incremental solver process
// (z3's incremental mode skips the preprocessing that floating-point and
// wide bit-vector obligations need). vars != nil also retrieves a model.
func (s *Solver) oneShot(extra *Term, vars []*Term) (SatResult, []uint64) {
	s.OneShot++
	terms := append([]*Term(nil), s.pcTerms...)
	if extra != nil {
		terms = append(terms, extra)
	}
	body, names := script(terms, vars)
	var sb strings.Builder
	sb.WriteString(body)
	sb.WriteString("(check-sat)\n")
	if len(names) > 0 {
		sb.WriteString("(get-value (" + strings.Join(names, " ") + "))\n")
	}
	if smtLogDir != "" {
		os.WriteFile(fmt.Sprintf("%s/oneshot-%d-%d.smt2", smtLogDir, os.Getpid(), s.Queries), []byte(sb.String()), 0o644)
	}
	for _, bin := range []string{"z3", "z3-new"} {
		cmd := exec.Command(bin, "-in", fmt.Sprintf("-T:%d", s.timeout/1000))
		cmd.Stdin = strings.NewReader(sb.String())
		out, _ := cmd.Output()
		txt := string(out)
		line := txt
		if i := strings.IndexByte(txt, '\n'); i >= 0 {
			line = txt[:i]
		}
		switch strings.TrimSpace(line) {
		case "unsat":
			return Unsat, nil
		case "sat":
			if len(names) == 0 {
				return Sat, nil
			}
			rest := txt[len(line):]
			if strings.Contains(rest, "(error") {
				continue
			}
			return Sat, parseModel(rest, vars, names)
		}
	}
	return Unknown, nil
}

// checkSatCmd: cvc5 rejects an empty assumption list.
func checkSatCmd(assumptions string) string {
	if strings.TrimSpace(assumptions) == "" {
		return "(check-sat)"
	}
	return "(check-sat-assuming (" + assumptions + "))"
}

func (s *Solver) readLine() string {
	line, err := s.out.ReadString('\n')
	if err != nil {
		return "(error \"solver died: " + err.Error() + "\")"
	}
	return strings.TrimSpace(line)
}

// Check decides satisfiability of (path condition ∧ extra). extra may be nil.
func (s *Solver) Check(extra *Term) SatResult {
	if extra != nil && extra.isConst() {
		if extra.k == 0 {
			return Unsat
		}
		extra = nil
	}
	start := time.Now()
	if s.direct(extra) {
		s.Queries++
		r, _ := s.oneShot(extra, nil)
		switch r {
		case Sat:
			s.NSat++
		case Unsat:
			s.NUnsat++
		default:
			s.NUnknown++
		}
		s.Time += time.Since(start)
		return r
	}
	s.send(checkSatCmd(s.assumptions(extra)) + "\n(echo \"@@\")\n")
	s.flush()
	s.Queries++
	res := Unknown
	answered := false
	// read up to the sentinel: an error answer (no sat/unsat follows) must not leave the reader waiting
	for {
		line := strings.Trim(s.readLine(), "\"")
		if line == "@@" {
			break
		}
		switch {
		case line == "sat":
			res, answered = Sat, true
			s.NSat++
		case line == "unsat":
			res, answered = Unsat, true
			s.NUnsat++
		case line == "unknown":
			res, answered = Unknown, true
			s.NUnknown++
			s.dumpLog("unknown")
		case strings.HasPrefix(line, "(error"):
			s.Errors = append(s.Errors, line)
			s.dumpLog("error")
			if strings.Contains(line, "solver died") {
				s.NUnknown++
				s.Time += time.Since(start)
				return Unknown
			}
		case line == "" || line == "success":
		default:
			s.Errors = append(s.Errors, "unexpected solver output: "+line)
		}
	}
	if !answered {
		s.NUnknown++
		if len(s.Errors) == 0 {
			s.Errors = append(s.Errors, "(error \"no answer to check-sat\")")
		}
	}
	if res == Unknown && len(s.Errors) == 0 {
		if r, _ := s.oneShot(extra, nil); r != Unknown {
			s.NUnknown--
			if r == Sat {
				s.NSat++
			} else {
				s.NUnsat++
			}
			res = r
		}
	}
	s.Time += time.Since(start)
	if len(s.Errors) > 0 {
		return Unknown
	}
	return res
}

// CheckWithModel is Check followed by (get-value) over vars while the solver
// still holds the satisfying assignment.
func (s *Solver) CheckWithModel(extra *Term, vars []*Term) (SatResult, []uint64) {
	if extra != nil && extra.isConst() {
		if extra.k == 0 {
			return Unsat, nil
		}
		extra = nil
	}
	start := time.Now()
	if s.direct(extra) {
		s.Queries++
		r, m := s.oneShot(extra, vars)
		switch r {
		case Sat:
			s.NSat++
		case Unsat:
			s.NUnsat++
		default:
			s.NUnknown++
		}
		s.Time += time.Since(start)
		return r, m
	}
	names := make([]string, len(vars))
	for i, v := range vars {
		names[i] = s.ref(v)
	}
	s.send(checkSatCmd(s.assumptions(extra)) + "\n(echo \"@@\")\n")
	s.flush()
	s.Queries++
	res := Unknown
	answered := false
	for {
		line := strings.Trim(s.readLine(), "\"")
		if line == "@@" {
			break
		}
		switch {
		case line == "sat":
			res, answered = Sat, true
			s.NSat++
		case line == "unsat":
			res, answered = Unsat, true
			s.NUnsat++
		case line == "unknown":
			res, answered = Unknown, true
			s.NUnknown++
		case strings.HasPrefix(line, "(error"):
			s.Errors = append(s.Errors, line)
			if strings.Contains(line, "solver died") {
				return Unknown, nil
			}
		}
	}
	if !answered {
		s.NUnknown++
		if len(s.Errors) == 0 {
			s.Errors = append(s.Errors, "(error \"no answer to check-sat\")")
		}
	}
	var model []uint64
	if res == Sat && len(vars) > 0 {
		s.send("(get-value (" + strings.Join(names, " ") + "))\n")
		s.flush()
		txt := s.readSexp()
		model = parseModel(txt, vars, names)
	}
	if res == Unknown && len(s.Errors) == 0 {
		if r, m := s.oneShot(extra, vars); r != Unknown {
			s.NUnknown--
			if r == Sat {
				s.NSat++
			} else {
				s.NUnsat++
			}
			res, model = r, m
		}
	}
	s.Time += time.Since(start)
	if len(s.Errors) > 0 {
		return Unknown, nil
	}
	return res, model
}

// readSexp reads one balanced s-expression from the solver.
func (s *Solver) readSexp() string {
	var sb strings.Builder
	depth := 0
	started := false
	inBar := false
	for {
		c, err := s.out.ReadByte()
		if err != nil {
			return sb.String()
		}
		sb.WriteByte(c)
		if inBar {
			if c == '|' {
				inBar = false
			}
			continue
		}
		switch c {
		case '|':
			inBar = true
		case '(':
			depth++
			started = true
		case ')':
			depth--
			if started && depth == 0 {
				return sb.String()
			}
		}
	}
}

// parseModel extracts the bit patterns of vars from a (get-value) answer.
func parseModel(txt string, vars []*Term, names []string) []uint64 {
	toks := tokenizeSexp(txt)
	// toks: ( ( name value... ) ( name value ) ... )
	model := make([]uint64, len(vars))
	pos := 0
	next := func() string {
		if pos < len(toks) {
			t := toks[pos]
			pos++
			return t
		}
		return ""
	}
	var parseVal func(sort Sort) uint64
	parseVal = func(sort Sort) uint64 {
		t := next()
		switch {
		case t == "true":
			return 1
		case t == "false":
			return 0
		case strings.HasPrefix(t, "#x"):
			v, _ := strconv.ParseUint(t[2:], 16, 64)
			return v
		case strings.HasPrefix(t, "#b"):
			v, _ := strconv.ParseUint(t[2:], 2, 64)
			return v
		case t == "(":
			h := next()
			switch h {
			case "fp":
				sg := parseVal(SBV8)
				ex := parseVal(SBV16)
				mant := parseVal(SBV64)
				next() // )
				if sort == SF32 {
					return sg<<31 | ex<<23 | mant
				}
				return sg<<63 | ex<<52 | mant
			case "_":
				kind := next()
				// (_ +zero 11 53) (_ NaN 8 24) (_ +oo ..) (_ bv123 64)
				var v uint64
				if strings.HasPrefix(kind, "bv") {
					v, _ = strconv.ParseUint(kind[2:], 10, 64)
					next()
					next()
					return v
				}
				next()
				next()
				next() // eb sb )
				is32 := sort == SF32
				switch kind {
				case "+zero":
					return 0
				case "-zero":
					if is32 {
						return 1 << 31
					}
					return 1 << 63
				case "+oo":
					if is32 {
						return 0x7f800000
					}
					return 0x7ff0000000000000
				case "-oo":
					if is32 {
						return 0xff800000
					}
					return 0xfff0000000000000
				case "NaN":
					if is32 {
						return 0x7fc00000
					}
					return 0x7ff8000000000001
				}
				return 0
			}
			// unknown form: skip to matching paren
			d := 1
			for d > 0 && pos < len(toks) {
				x := next()
				if x == "(" {
					d++
				} else if x == ")" {
					d--
				}
			}
			return 0
		}
		return 0
	}
	if next() != "(" {
		return model
	}
	for i := range vars {
		if next() != "(" {
			break
		}
		// the echoed term: either an atom or a parenthesised expression
		t := next()
		if t == "(" {
			d := 1
			for d > 0 && pos < len(toks) {
				x := next()
				if x == "(" {
					d++
				} else if x == ")" {
					d--
				}
			}
		}
		v := parseVal(vars[i].sort)
		next() // )
		model[i] = v
	}
	return model
}

func tokenizeSexp(s string) []string {
	var toks []string
	i := 0
	for i < len(s) {
		c := s[i]
		switch {
		case c == '(' || c == ')':
			toks = append(toks, string(c))
			i++
		case c == ' ' || c == '\n' || c == '\t' || c == '\r':
			i++
		case c == '|':
			j := i + 1
			for j < len(s) && s[j] != '|' {
				j++
			}
			toks = append(toks, s[i:j+1])
			i = j + 1
		default:
			j := i
			for j < len(s) && !strings.ContainsRune("() \n\t\r", rune(s[j])) {
				j++
			}
			toks = append(toks, s[i:j])
			i = j
		}
	}
	return toks
}
