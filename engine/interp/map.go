package interp

// Deterministic maps: insertion-ordered association lists with a hash index
// for concrete keys. Iteration order is chosen by the engine (insertion order
// by default, every permutation under PermuteMaps), never by the host
// runtime. Keys may be symbolic (sym / symstr); then lookup compares against
// every stored key with a solver-decided branch per candidate.

import (
	"go/types"
	"sort"
)

type omapEntry struct {
	k, v    value
	deleted bool
}

type omap struct {
	keyType types.Type
	ents    []omapEntry
	idx     map[int][]int32 // hash -> entry indices (concrete keys only)
	n       int             // live entries
	symKeys int             // number of live entries with symbolic keys
}

func newOMap(kt types.Type) *omap {
	return &omap{keyType: kt, idx: make(map[int][]int32)}
}

func (m *omap) len() int {
	if m == nil {
		return 0
	}
	return m.n
}

// isSymbolic reports whether v contains a symbolic component relevant to
// comparison (so that it cannot be hashed).
func isSymbolic(v value) bool {
	switch v := v.(type) {
	case sym, symstr, opaqueStr:
		return true
	case iface:
		return isSymbolic(v.v)
	case structure:
		for _, f := range v {
			if isSymbolic(f) {
				return true
			}
		}
	case array:
		for _, f := range v {
			if isSymbolic(f) {
				return true
			}
		}
	}
	return false
}

// find returns the index of key k, or -1. It may fork when symbolic keys are
// involved.
func (m *omap) find(w *worker, k value) int {
	if m == nil {
		return -1
	}
	if !isSymbolic(k) {
		h := hash(m.keyType, m.keyType, k)
		for _, i := range m.idx[h] {
			e := &m.ents[i]
			if !e.deleted && w.truth(equals(w, m.keyType, e.k, k)) {
				return int(i)
			}
		}
		if m.symKeys == 0 {
			return -1
		}
		for i := range m.ents {
			e := &m.ents[i]
			if !e.deleted && isSymbolic(e.k) && w.truth(equals(w, m.keyType, e.k, k)) {
				return i
			}
		}
		return -1
	}
	for i := range m.ents {
		e := &m.ents[i]
		if !e.deleted && w.truth(equals(w, m.keyType, e.k, k)) {
			return i
		}
	}
	return -1
}

func (m *omap) lookup(w *worker, k value) (value, bool) {
	if i := m.find(w, k); i >= 0 {
		return m.ents[i].v, true
	}
	return nil, false
}

func (m *omap) insert(w *worker, k, v value) {
	if i := m.find(w, k); i >= 0 {
		m.ents[i].v = v
		return
	}
	m.ents = append(m.ents, omapEntry{k: k, v: v})
	m.n++
	if isSymbolic(k) {
		m.symKeys++
	} else {
		h := hash(m.keyType, m.keyType, k)
		m.idx[h] = append(m.idx[h], int32(len(m.ents)-1))
	}
}

func (m *omap) delete(w *worker, k value) {
	if i := m.find(w, k); i >= 0 {
		e := &m.ents[i]
		e.deleted = true
		e.v = nil
		m.n--
		if isSymbolic(e.k) {
			m.symKeys--
		} else {
			h := hash(m.keyType, m.keyType, e.k)
			l := m.idx[h]
			for j, x := range l {
				if int(x) == i {
					m.idx[h] = append(l[:j:j], l[j+1:]...)
					break
				}
			}
		}
	}
}

// liveEntries returns the live entries in the engine's iteration order.
func (m *omap) liveEntries(w *worker) []omapEntry {
	if m == nil {
		return nil
	}
	out := make([]omapEntry, 0, m.n)
	for _, e := range m.ents {
		if !e.deleted {
			out = append(out, e)
		}
	}
	if w != nil {
		out = w.orderMapEntries(out)
	}
	return out
}

// sortedByKey orders entries by a canonical key order where possible (used for
// printing only).
func sortedByKey(es []omapEntry) []omapEntry {
	out := append([]omapEntry(nil), es...)
	sort.SliceStable(out, func(i, j int) bool {
		a, aok := out[i].k.(string)
		b, bok := out[j].k.(string)
		if aok && bok {
			return a < b
		}
		return false
	})
	return out
}

type mapIter struct {
	m    *omap
	ents []omapEntry // snapshot in iteration order
	idxs []int       // index into m.ents of each snapshot entry
	i    int
}

func newMapIter(w *worker, m *omap) *mapIter {
	it := &mapIter{m: m}
	if m == nil {
		return it
	}
	for i, e := range m.ents {
		if !e.deleted {
			it.ents = append(it.ents, omapEntry{k: e.k, v: int(i)})
		}
	}
	if w != nil {
		it.ents = w.orderMapEntries(it.ents)
	}
	for _, e := range it.ents {
		it.idxs = append(it.idxs, e.v.(int))
	}
	return it
}

// next yields the next entry that is still present (Go never yields an entry
// deleted before it was reached).
func (it *mapIter) next(fr *frame) tuple {
	for it.i < len(it.idxs) {
		e := &it.m.ents[it.idxs[it.i]]
		it.i++
		if !e.deleted {
			return tuple{true, e.k, e.v}
		}
	}
	return tuple{false, nil, nil}
}
