// Copyright 2013 The Go Authors. All rights reserved.
// Use of this source code is governed by a BSD-style
// license that can be found in the LICENSE file.

package interp

// Values
//
// All interpreter values are "boxed" in the empty interface, value.
// The range of possible dynamic types within value are:
//
// - bool
// - numbers (all built-in int/float/complex types are distinguished)
// - string
// - map[value]value --- maps for which  usesBuiltinMap(keyType)
//   *hashmap        --- maps for which !usesBuiltinMap(keyType)
// - chan value
// - []value --- slices
// - iface --- interfaces.
// - structure --- structs.  Fields are ordered and accessed by numeric indices.
// - array --- arrays.
// - *value --- pointers.  Careful: *value is a distinct type from *array etc.
// - *ssa.Function \
//   *ssa.Builtin   } --- functions.  A nil 'func' is always of type *ssa.Function.
//   *closure      /
// - tuple --- as returned by Return, Next, "value,ok" modes, etc.
// - iter --- iterators from 'range' over map or string.
// - bad --- a poison pill for locals that have gone out of scope.
// - rtype -- the interpreter's concrete implementation of reflect.Type
// - **deferred -- the address of a frame's defer stack for a Defer._Stack.
//
// Note that nil is not on this list.
//
// Pay close attention to whether or not the dynamic type is a pointer.
// The compiler cannot help you since value is an empty interface.

import (
	"bytes"
	"fmt"
	"go/types"
	"math"
	"sync"
	"unsafe"

	"golang.org/x/tools/go/ssa"
	"golang.org/x/tools/go/types/typeutil"
)

type value interface{}

type tuple []value

type array []value

type iface struct {
	t types.Type // never an "untyped" type
	v value
}

type structure []value

// For map, array, *array, slice, string or channel.
type iter interface {
	// next returns a Tuple (ok, key, value).
	// key and value are unaliased, e.g. copies of the sequence element.
	next(fr *frame) tuple
}

type closure struct {
	Fn  *ssa.Function
	Env []value
}

type bad struct{}

type rtype struct {
	t types.Type
}

// reflectValueNamed is the type-checker's reflect.Value; values of this type
// are represented by the engine's rval, never by a structure.
var reflectValueNamed *types.Named

// opaqueNamed lists named struct types of opaque packages whose values are
// host objects (a single engine value), never structures.
var opaqueNamed = map[string]bool{"regexp.Regexp": true}

func isOpaqueNamed(T types.Type) bool {
	n, ok := T.(*types.Named)
	if !ok {
		return false
	}
	if n == reflectValueNamed {
		return true
	}
	o := n.Obj()
	if o.Pkg() == nil {
		return false
	}
	switch o.Pkg().Path() {
	case "regexp":
		return opaqueNamed["regexp."+o.Name()]
	}
	return false
}

// sym is a symbolic scalar: a Go basic kind plus an SMT term of the matching sort.
type sym struct {
	k types.BasicKind
	t *Term
}

// symstr is a string of concrete length with at least one symbolic byte.
// Elements are byte (uint8) or sym{Uint8}. Immutable.
type symstr struct {
	b []value
}

// hostObj wraps an opaque native object (e.g. *regexp.Regexp) living in a cell.
type hostObj struct {
	v interface{}
}

// Hash functions and equivalence relation:

// hashString computes the FNV hash of s.
func hashString(s string) int {
	var h uint32
	for i := 0; i < len(s); i++ {
		h ^= uint32(s[i])
		h *= 16777619
	}
	return int(h)
}

var (
	hasherMu sync.Mutex
	hasher   = typeutil.MakeHasher()
)

// hashType returns a hash for t such that
// types.Identical(x, y) => hashType(x) == hashType(y).
func hashType(t types.Type) int {
	hasherMu.Lock()
	defer hasherMu.Unlock()
	return int(hasher.Hash(t))
}

// nil-tolerant variant of types.Identical.
func sameType(x, y types.Type) bool {
	if x == nil {
		return y == nil
	}
	if x == y {
		return true
	}
	return y != nil && types.Identical(x, y)
}

func bAnd(a, b value) value {
	if ab, ok := a.(bool); ok {
		if !ab {
			return false
		}
		return b
	}
	if bb, ok := b.(bool); ok {
		if !bb {
			return false
		}
		return a
	}
	return mkSymBool(tAnd(a.(sym).t, b.(sym).t))
}

// equals returns x == y according to Go's equivalence relation for type t: a
// bool, or a symbolic bool when symbolic components are compared.
// In a well-typed program, the dynamic types of x and y are guaranteed equal.
func equals(w *worker, t types.Type, x, y value) value {
	switch x := x.(type) {
	case bool:
		if ys, ok := y.(sym); ok {
			return symEq(x, ys)
		}
		return x == y.(bool)
	case int:
		if ys, ok := y.(sym); ok {
			return symEq(x, ys)
		}
		return x == y.(int)
	case int8:
		if ys, ok := y.(sym); ok {
			return symEq(x, ys)
		}
		return x == y.(int8)
	case int16:
		if ys, ok := y.(sym); ok {
			return symEq(x, ys)
		}
		return x == y.(int16)
	case int32:
		if ys, ok := y.(sym); ok {
			return symEq(x, ys)
		}
		return x == y.(int32)
	case int64:
		if ys, ok := y.(sym); ok {
			return symEq(x, ys)
		}
		return x == y.(int64)
	case uint:
		if ys, ok := y.(sym); ok {
			return symEq(x, ys)
		}
		return x == y.(uint)
	case uint8:
		if ys, ok := y.(sym); ok {
			return symEq(x, ys)
		}
		return x == y.(uint8)
	case uint16:
		if ys, ok := y.(sym); ok {
			return symEq(x, ys)
		}
		return x == y.(uint16)
	case uint32:
		if ys, ok := y.(sym); ok {
			return symEq(x, ys)
		}
		return x == y.(uint32)
	case uint64:
		if ys, ok := y.(sym); ok {
			return symEq(x, ys)
		}
		return x == y.(uint64)
	case uintptr:
		if ys, ok := y.(sym); ok {
			return symEq(x, ys)
		}
		return x == y.(uintptr)
	case float32:
		if ys, ok := y.(sym); ok {
			return symEq(x, ys)
		}
		return x == y.(float32)
	case float64:
		if ys, ok := y.(sym); ok {
			return symEq(x, ys)
		}
		return x == y.(float64)
	case complex64:
		return x == y.(complex64)
	case complex128:
		return x == y.(complex128)
	case sym:
		return symEq(x, y)
	case string:
		switch ys := y.(type) {
		case symstr, opaqueStr:
			return strEq(x, ys)
		}
		return x == y.(string)
	case symstr:
		return strEq(x, y)
	case opaqueStr:
		return strEq(x, y)
	case *value:
		return x == y.(*value)
	case *chanV:
		return x == y.(*chanV)
	case structure:
		ys := y.(structure)
		tStruct := t.Underlying().(*types.Struct)
		var r value = true
		for i, n := 0, tStruct.NumFields(); i < n; i++ {
			if f := tStruct.Field(i); f.Name() != "_" {
				r = bAnd(r, equals(w, f.Type(), x[i], ys[i]))
				if r == false {
					return false
				}
			}
		}
		return r
	case array:
		ya := y.(array)
		tElt := t.Underlying().(*types.Array).Elem()
		var r value = true
		for i, xi := range x {
			r = bAnd(r, equals(w, tElt, xi, ya[i]))
			if r == false {
				return false
			}
		}
		return r
	case iface:
		yi := y.(iface)
		if !sameType(x.t, yi.t) {
			return false
		}
		if x.t == nil {
			return true
		}
		if x.t != rtypeType && x.t != errorType && !types.Comparable(x.t) {
			panic(runtimeError("comparing uncomparable type " + x.t.String()))
		}
		return equals(w, x.t, x.v, yi.v)
	case rtype:
		return types.Identical(x.t, y.(rtype).t)
	case hostObj:
		return x.v == y.(hostObj).v
	case unsafe.Pointer:
		return x == y.(unsafe.Pointer)
	}

	// Since map, func and slice don't support comparison, this
	// case is only reachable if one of x or y is literally nil
	// (handled in eqnil) or via interface{} values.
	panic(runtimeError(fmt.Sprintf("comparing uncomparable type %s", t)))
}

// Returns an integer hash of x such that equals(x, y) => hash(x) == hash(y).
// The outer type is used only for the "unhashable" panic message.
// x must not contain symbolic components.
func hash(outer, t types.Type, x value) int {
	switch x := x.(type) {
	case bool:
		if x {
			return 1
		}
		return 0
	case int:
		return x
	case int8:
		return int(x)
	case int16:
		return int(x)
	case int32:
		return int(x)
	case int64:
		return int(x)
	case uint:
		return int(x)
	case uint8:
		return int(x)
	case uint16:
		return int(x)
	case uint32:
		return int(x)
	case uint64:
		return int(x)
	case uintptr:
		return int(x)
	case float32:
		if x == 0 {
			return 0
		}
		return int(math.Float32bits(x))
	case float64:
		if x == 0 {
			return 0
		}
		return int(math.Float64bits(x))
	case complex64:
		return int(real(x))
	case complex128:
		return int(real(x))
	case string:
		return hashString(x)
	case *value:
		return int(uintptr(unsafe.Pointer(x)))
	case *chanV:
		return int(uintptr(unsafe.Pointer(x)))
	case structure:
		tStruct := t.Underlying().(*types.Struct)
		h := 0
		for i, n := 0, tStruct.NumFields(); i < n; i++ {
			if f := tStruct.Field(i); f.Name() != "_" {
				h = h*31 + hash(outer, f.Type(), x[i])
			}
		}
		return h
	case array:
		h := 0
		tElt := t.Underlying().(*types.Array).Elem()
		for _, xi := range x {
			h = h*31 + hash(outer, tElt, xi)
		}
		return h
	case iface:
		if x.t == nil {
			return 0
		}
		return hashType(x.t)*8581 + hash(outer, x.t, x.v)
	case rtype:
		return hashType(x.t)
	case hostObj:
		return 7
	}
	panic(runtimeError(fmt.Sprintf("hash of unhashable type %v", outer)))
}

// reflect.Value struct values don't have a fixed shape, since the
// payload can be a scalar or an aggregate depending on the instance.
// So store (and load) can't simply use recursion over the shape of the
// rhs value, or the lhs, to copy the value; we need the static type
// information.  (We can't make reflect.Value a new basic data type
// because its "structness" is exposed to Go programs.)

// load returns the value of type T in *addr.
func load(T types.Type, addr *value) value {
	if isOpaqueNamed(T) {
		return *addr
	}
	switch T := T.Underlying().(type) {
	case *types.Struct:
		v := (*addr).(structure)
		a := make(structure, len(v))
		for i := range a {
			a[i] = load(T.Field(i).Type(), &v[i])
		}
		return a
	case *types.Array:
		v := (*addr).(array)
		a := make(array, len(v))
		for i := range a {
			a[i] = load(T.Elem(), &v[i])
		}
		return a
	default:
		return *addr
	}
}

// store stores value v of type T into *addr.
func store(T types.Type, addr *value, v value) {
	if isOpaqueNamed(T) {
		*addr = v
		return
	}
	switch T := T.Underlying().(type) {
	case *types.Struct:
		lhs := (*addr).(structure)
		rhs := v.(structure)
		for i := range lhs {
			store(T.Field(i).Type(), &lhs[i], rhs[i])
		}
	case *types.Array:
		lhs := (*addr).(array)
		rhs := v.(array)
		for i := range lhs {
			store(T.Elem(), &lhs[i], rhs[i])
		}
	default:
		*addr = v
	}
}

// Prints in the style of built-in println.
// (More or less; in gc println is actually a compiler intrinsic and
// can distinguish println(1) from println(interface{}(1)).)
func writeValue(buf *bytes.Buffer, v value) {
	switch v := v.(type) {
	case nil, bool, int, int8, int16, int32, int64, uint, uint8, uint16, uint32, uint64, uintptr, float32, float64, complex64, complex128, string:
		fmt.Fprintf(buf, "%v", v)

	case *omap:
		buf.WriteString("map[")
		sep := ""
		for _, e := range sortedByKey(v.liveEntries(nil)) {
			buf.WriteString(sep)
			sep = " "
			writeValue(buf, e.k)
			buf.WriteString(":")
			writeValue(buf, e.v)
		}
		buf.WriteString("]")

	case *chanV:
		fmt.Fprintf(buf, "chan@%p", v) // (an address)

	case sym:
		fmt.Fprintf(buf, "<sym %s>", v.t.String())

	case symstr:
		buf.WriteString(symstrDebug(v))

	case opaqueStr:
		buf.WriteString("‹opaque text›")

	case rval:
		if v.t == nil {
			buf.WriteString("<invalid reflect.Value>")
		} else {
			fmt.Fprintf(buf, "<%s Value>", v.t)
		}

	case hostObj:
		fmt.Fprintf(buf, "%v", v.v)

	case *value:
		if v == nil {
			buf.WriteString("<nil>")
		} else {
			fmt.Fprintf(buf, "%p", v)
		}

	case iface:
		fmt.Fprintf(buf, "(%s, ", v.t)
		writeValue(buf, v.v)
		buf.WriteString(")")

	case structure:
		buf.WriteString("{")
		for i, e := range v {
			if i > 0 {
				buf.WriteString(" ")
			}
			writeValue(buf, e)
		}
		buf.WriteString("}")

	case array:
		buf.WriteString("[")
		for i, e := range v {
			if i > 0 {
				buf.WriteString(" ")
			}
			writeValue(buf, e)
		}
		buf.WriteString("]")

	case []value:
		buf.WriteString("[")
		for i, e := range v {
			if i > 0 {
				buf.WriteString(" ")
			}
			writeValue(buf, e)
		}
		buf.WriteString("]")

	case *ssa.Function, *ssa.Builtin, *closure:
		fmt.Fprintf(buf, "%p", v) // (an address)

	case rtype:
		buf.WriteString(v.t.String())

	case tuple:
		// Unreachable in well-formed Go programs
		buf.WriteString("(")
		for i, e := range v {
			if i > 0 {
				buf.WriteString(", ")
			}
			writeValue(buf, e)
		}
		buf.WriteString(")")

	default:
		fmt.Fprintf(buf, "<%T>", v)
	}
}

// Implements printing of Go values in the style of built-in println.
func toString(v value) string {
	var b bytes.Buffer
	writeValue(&b, v)
	return b.String()
}

