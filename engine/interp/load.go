package interp

// Loading: go/packages + go/ssa over the harness module (which imports
// go-ucfg from /repo through a replace directive), so that the encoding is
// regenerated from /repo's current working tree on every run.

import (
	"fmt"
	"go/types"
	"os"
	"sort"
	"strings"
	"time"

	"golang.org/x/tools/go/packages"
	"golang.org/x/tools/go/ssa"
	"golang.org/x/tools/go/ssa/ssautil"
)

// Packages whose code and initialisers are interpreted from SSA. Everything
// else is reachable only through intrinsics.
var interpretedPkgs = map[string]bool{
	"errors": true, "strconv": true, "strings": true, "bytes": true, "unicode": true, "unicode/utf8": true,
	"sort": true, "slices": true, "cmp": true, "math/bits": true, "internal/stringslite": true, "internal/itoa": true,
	"internal/bytealg": true, "math": true, "io": true, "unicode/utf16": true, "iter": true,
	"internal/byteorder": true,
}

type Program = program

type LoadInfo struct {
	LoadTime, BuildTime time.Duration
	UcfgFuncs           int
	Packages            int
}

// Load builds the SSA program for the harness package in dir.
func Load(dir string, pkgPattern string, overlay map[string][]byte) (*Program, *LoadInfo, error) {
	t0 := time.Now()
	cfg := &packages.Config{
		Mode:    packages.LoadAllSyntax,
		Dir:     dir,
		Env:     append(os.Environ(), "GOFLAGS=-mod=mod", "GOPROXY=off", "GOSUMDB=off", "GOTOOLCHAIN=local", "CGO_ENABLED=0"),
		Overlay: overlay,
	}
	initial, err := packages.Load(cfg, pkgPattern)
	if err != nil {
		return nil, nil, err
	}
	var errs []string
	packages.Visit(initial, nil, func(p *packages.Package) {
		for _, e := range p.Errors {
			errs = append(errs, e.Error())
		}
	})
	if len(errs) > 0 {
		return nil, nil, fmt.Errorf("load errors:\n%s", strings.Join(errs, "\n"))
	}
	if len(initial) != 1 {
		return nil, nil, fmt.Errorf("expected one harness package, got %d", len(initial))
	}
	t1 := time.Now()
	prog, _ := ssautil.AllPackages(initial, ssa.InstantiateGenerics|ssa.SanityCheckFunctions&0)
	prog.Build()
	t2 := time.Now()

	p := &program{prog: prog, sizes: &types.StdSizes{WordSize: 8, MaxAlign: 8}, interpreted: map[*ssa.Package]bool{}}
	runtimePkg := prog.ImportedPackage("runtime")
	if runtimePkg == nil {
		return nil, nil, fmt.Errorf("ssa.Program doesn't include runtime package")
	}
	p.runtimeErrorString = runtimePkg.Type("errorString").Object().Type()
	initReflect(p)

	info := &LoadInfo{LoadTime: t1.Sub(t0), BuildTime: t2.Sub(t1)}
	for _, pkg := range prog.AllPackages() {
		path := pkg.Pkg.Path()
		p.allPkgs = append(p.allPkgs, pkg)
		switch {
		case isUcfgPath(path), strings.HasPrefix(path, "vharness"):
			p.interpreted[pkg] = true
			if path != "vharness/verif" {
				p.resettable = append(p.resettable, pkg)
			}
		case interpretedPkgs[path]:
			p.interpreted[pkg] = true
		}
		if isUcfgPath(path) {
			for _, m := range pkg.Members {
				if _, ok := m.(*ssa.Function); ok {
					info.UcfgFuncs++
				}
			}
		}
	}
	sort.Slice(p.allPkgs, func(i, j int) bool { return p.allPkgs[i].Pkg.Path() < p.allPkgs[j].Pkg.Path() })
	info.Packages = len(p.allPkgs)
	p.harnessPkg = prog.Package(initial[0].Types)
	// resettable packages must be re-initialised in dependency order: a
	// package's init calls its imports' inits itself, guarded by init$guard.
	return p, info, nil
}

func (p *program) harnessFunc(name string) *ssa.Function {
	if p.harnessPkg == nil {
		return nil
	}
	return p.harnessPkg.Func(name)
}

// HarnessNames lists exported functions of the harness package with the given prefix.
func (p *program) HarnessNames(prefix string) []string {
	var out []string
	for n, m := range p.harnessPkg.Members {
		if f, ok := m.(*ssa.Function); ok && strings.HasPrefix(n, prefix) && f.Signature.Params().Len() == 0 {
			out = append(out, n)
		}
	}
	sort.Strings(out)
	return out
}

// FuncPos returns file:line of a function named as in Function.String().
func (p *program) FuncPositions(names map[string]bool) map[string]string {
	out := map[string]string{}
	for fn := range ssautil.AllFunctions(p.prog) {
		n := fn.String()
		if names[n] && fn.Pos().IsValid() {
			pos := p.prog.Fset.Position(fn.Pos())
			out[n] = fmt.Sprintf("%s:%d", pos.Filename, pos.Line)
		}
	}
	return out
}

// initWorld allocates the globals and runs the initialisers of the interpreted packages once.
func (w *worker) initWorld() (err error) {
	ip := w.ip
	for _, pkg := range ip.allPkgs {
		for _, m := range pkg.Members {
			if g, ok := m.(*ssa.Global); ok {
				cell := zero(deref(g.Type()))
				ip.globals[g] = &cell
			}
		}
	}
	w.resetPath(nil)
	w.maxSteps = 50_000_000
	ip.sched = newSched()
	defer func() {
		if r := recover(); r != nil {
			err = fmt.Errorf("package initialisation failed: %v", describeAbort(r))
		}
		w.maxSteps = w.ex.cfg.MaxSteps
	}()
	callSSA(ip, nil, 0, ip.harnessPkg.Func("init"), nil, nil)
	return nil
}

func describeAbort(r interface{}) string {
	switch r := r.(type) {
	case pathAbort:
		return r.msg
	case targetPanic:
		return "panic: " + toString(r.v)
	}
	return fmt.Sprint(r)
}

// resetGlobals re-initialises the package-level state of go-ucfg and the
// harness so that no path can observe writes made by another path.
func (w *worker) resetGlobals() {
	ip := w.ip
	for _, pkg := range ip.resettable {
		for _, m := range pkg.Members {
			if g, ok := m.(*ssa.Global); ok {
				*ip.globals[g] = zero(deref(g.Type()))
			}
		}
	}
	callSSA(ip, nil, 0, ip.harnessPkg.Func("init"), nil, nil)
}
