// Copyright 2013 The Go Authors. All rights reserved.
// Use of this source code is governed by a BSD-style
// license that can be found in the LICENSE file.

package interp

// Intrinsics: the opaque part of the standard library. Every entry either
// evaluates natively on concrete arguments, or builds terms / forks on
// symbolic arguments, or is a documented contract stub (listed in the
// evidence under "stubs").

import (
	"encoding/json"
	"fmt"
	"go/types"
	"math"
	"os"
	"path/filepath"
	"regexp"
	"sort"
	"strconv"
	"strings"
	"time"
	"unicode"
	"unicode/utf8"

	"golang.org/x/tools/go/ssa"
)

type externalFn func(fr *frame, args []value) value

// Key strings are from Function.String().
var externals = make(map[string]externalFn)

func init() {
	for k, v := range map[string]externalFn{
		"fmt.Sprintf":  ext۰fmt۰Sprintf,
		"fmt.Errorf":   ext۰fmt۰Errorf,
		"fmt.Sprint":   ext۰fmt۰Sprint,
		"fmt.Sprintln": ext۰fmt۰Sprintln,
		"fmt.Println":  ext۰fmt۰Println,
		"fmt.Printf":   ext۰fmt۰Printf,

		"math.Abs":             ext۰math۰Abs,
		"math.Float32bits":     ext۰math۰Float32bits,
		"math.Float32frombits": ext۰math۰Float32frombits,
		"math.Float64bits":     ext۰math۰Float64bits,
		"math.Float64frombits": ext۰math۰Float64frombits,
		"math.Inf":             ext۰math۰Inf,
		"math.IsNaN":           ext۰math۰IsNaN,
		"math.IsInf":           ext۰math۰IsInf,
		"math.NaN":             ext۰math۰NaN,
		"math.Trunc":           ext۰math۰Trunc,
		"math.Floor":           ext۰math۰Floor,

		"os.Getenv":           ext۰os۰Getenv,
		"os.LookupEnv":        ext۰os۰LookupEnv,
		"runtime/debug.Stack": ext۰debug۰Stack,
		"time.Now":            ext۰time۰Now,
		"(time.Time).Unix":    ext۰time۰Time۰Unix,
		"time.ParseDuration":  ext۰time۰ParseDuration,
		"(time.Duration).String": ext۰time۰Duration۰String,
		"path/filepath.Ext":   ext۰filepath۰Ext,

		"regexp.Compile":             ext۰regexp۰Compile,
		"regexp.MustCompile":         ext۰regexp۰MustCompile,
		"(*regexp.Regexp).String":    ext۰regexp۰String,
		"(*regexp.Regexp).MatchString": ext۰regexp۰MatchString,
		"(*regexp.Regexp).ReplaceAllString": ext۰regexp۰ReplaceAllString,

		"sort.Strings": ext۰sort۰Strings,
		"sort.Slice":   ext۰sort۰Slice,

		"sync/atomic.AddInt32":   ext۰atomic۰AddInt32,
		"sync/atomic.AddInt64":   ext۰atomic۰AddInt64,
		"sync/atomic.LoadInt32":  ext۰atomic۰Load,
		"sync/atomic.LoadInt64":  ext۰atomic۰Load,
		"sync/atomic.StoreInt32": ext۰atomic۰Store,
		"sync/atomic.StoreInt64": ext۰atomic۰Store,

		"strconv.ParseFloat": ext۰strconv۰ParseFloat,
		"strconv.ParseInt":   ext۰strconv۰ParseInt,
		"strconv.ParseUint":  ext۰strconv۰ParseUint,
		"strconv.ParseBool":  ext۰strconv۰ParseBool,
		"strconv.Unquote":    ext۰strconv۰Unquote,
		"strconv.Itoa":       ext۰strconv۰Itoa,
		"strconv.Quote":      ext۰strconv۰Quote,
		"strconv.FormatInt":  ext۰strconv۰FormatInt,
		"strconv.FormatUint": ext۰strconv۰FormatUint,
		"strconv.FormatFloat": ext۰strconv۰FormatFloat,
		"strconv.FormatBool": ext۰strconv۰FormatBool,
		"strconv.Atoi":       ext۰strconv۰Atoi,

		"strings.IndexByte":    ext۰strings۰IndexByte,
		"strings.IndexAny":     ext۰strings۰IndexAny,
		"strings.Index":        ext۰strings۰Index,
		"strings.LastIndex":    ext۰strings۰LastIndex,
		"strings.Contains":     ext۰strings۰Contains,
		"strings.ContainsAny":  ext۰strings۰ContainsAny,
		"strings.ContainsRune": ext۰strings۰ContainsRune,
		"strings.HasPrefix":    ext۰strings۰HasPrefix,
		"strings.HasSuffix":    ext۰strings۰HasSuffix,
		"strings.TrimSpace":    ext۰strings۰TrimSpace,
		"strings.TrimLeftFunc": ext۰strings۰TrimLeftFunc,
		"strings.Trim":         ext۰strings۰Trim,
		"strings.TrimPrefix":   ext۰strings۰TrimPrefix,
		"strings.TrimSuffix":   ext۰strings۰TrimSuffix,
		"strings.Split":        ext۰strings۰Split,
		"strings.SplitN":       ext۰strings۰SplitN,
		"strings.Join":         ext۰strings۰Join,
		"strings.ToLower":      ext۰strings۰ToLower,
		"strings.ToUpper":      ext۰strings۰ToUpper,
		"strings.Repeat":       ext۰strings۰Repeat,
		"strings.Replace":      ext۰strings۰Replace,
		"strings.ReplaceAll":   ext۰strings۰ReplaceAll,
		"strings.EqualFold":    ext۰strings۰EqualFold,
		"strings.Count":        ext۰strings۰Count,
		"strings.Fields":       ext۰strings۰Fields,

		"internal/bytealg.IndexByteString": ext۰bytealg۰IndexByteString,
		"internal/bytealg.IndexByte":       ext۰bytealg۰IndexByte,
		"internal/bytealg.CountString":     ext۰bytealg۰CountString,
		"internal/bytealg.IndexString":     ext۰bytealg۰IndexString,
		"internal/bytealg.Equal":           ext۰bytealg۰Equal,
		"internal/bytealg.MakeNoZero":      ext۰bytealg۰MakeNoZero,
		"internal/bytealg.LastIndexByteString": ext۰bytealg۰LastIndexByteString,
		"bytes.Equal":                      ext۰bytealg۰Equal,
		"internal/stringslite.Clone":       ext۰stringslite۰Clone,
		"strings.Clone":                    ext۰stringslite۰Clone,

		"unicode.IsSpace":   ext۰unicode۰IsSpace,
		"unicode.IsUpper":   ext۰unicode۰IsUpper,
		"unicode.IsLower":   ext۰unicode۰IsLower,
		"unicode.IsDigit":   ext۰unicode۰IsDigit,
		"unicode.IsLetter":  ext۰unicode۰IsLetter,
		"unicode.ToLower":   ext۰unicode۰ToLower,
		"unicode.ToUpper":   ext۰unicode۰ToUpper,
		"unicode/utf8.DecodeRuneInString":     ext۰utf8۰DecodeRuneInString,
		"unicode/utf8.RuneCountInString":      ext۰utf8۰RuneCountInString,
		"unicode/utf8.ValidString":            ext۰utf8۰ValidString,
		"unicode/utf8.DecodeLastRuneInString": ext۰utf8۰DecodeLastRuneInString,

		"runtime.GC":         func(fr *frame, args []value) value { return nil },
		"runtime.Gosched":    func(fr *frame, args []value) value { return nil },
		"runtime.KeepAlive":  func(fr *frame, args []value) value { return nil },
		"runtime.SetFinalizer": func(fr *frame, args []value) value { return nil },
		"os.Exit":            ext۰os۰Exit,
		"(runtime.errorString).Error": func(fr *frame, args []value) value { return args[0] },
		"encoding/json.Marshal":       ext۰json۰Marshal,
		"internal/abi.NoEscape": func(fr *frame, args []value) value { return args[0] },
		"internal/abi.Escape":   func(fr *frame, args []value) value { return args[0] },
	} {
		externals[k] = v
	}
}

func (w *worker) stub(name string) { w.st.Stubs[name]++ }

func concreteStr(fr *frame, v value, what string) string {
	s, ok := v.(string)
	if !ok {
		fr.i.w.unsupported(what + " on a symbolic string")
	}
	return s
}

func allConcrete(vs ...value) bool {
	for _, v := range vs {
		switch v.(type) {
		case sym, symstr:
			return false
		}
	}
	return true
}

func mkError(fr *frame, msg string) value {
	// an *errors.errorString would need the errors package; the engine's own
	// error type (a string with an Error method) is indistinguishable through
	// the error interface.
	return iface{t: errorType, v: msg}
}

func errOrNil(fr *frame, err error) value {
	if err == nil {
		return iface{}
	}
	return mkError(fr, err.Error())
}

// ---------------- fmt ----------------

type fmtCtx struct {
	fr     *frame
	sents  []value // symbolic strings spliced into the output
	ptrs   int
	opaque bool
}

// trySmall renders a symbolic integer or bool exactly when it has only a
// handful of feasible values (list indices, small counters): the path forks
// over them. Otherwise the rendering stays opaque.
func (c *fmtCtx) trySmall(v sym) (value, bool) {
	if kindIsFloat(v.k) {
		return nil, false
	}
	bits, ok := c.fr.i.w.concretizeLimit(v.t, 12, true)
	if !ok {
		return nil, false
	}
	return constToValue(v.k, bits), true
}

func (c *fmtCtx) sentinel(s symstr) string {
	c.sents = append(c.sents, s)
	return fmt.Sprintf("\x00S%d\x00", len(c.sents)-1)
}

func hasMethod(fr *frame, t types.Type, name string) *ssa.Function {
	if t == errorType {
		if name == "Error" {
			return fr.i.errorMethods["Error"]
		}
		return nil
	}
	if t == rtypeType {
		if name == "String" {
			return fr.i.rtypeMethods["String"]
		}
		return nil
	}
	mset := fr.i.prog.MethodSets.MethodSet(t)
	sel := mset.Lookup(nil, name)
	if sel == nil {
		return nil
	}
	sig := sel.Obj().Type().(*types.Signature)
	if sig.Params().Len() != 0 || sig.Results().Len() != 1 {
		return nil
	}
	if b, ok := sig.Results().At(0).Type().Underlying().(*types.Basic); !ok || b.Kind() != types.String {
		return nil
	}
	return fr.i.prog.MethodValue(sel)
}

func callStringMethod(i *interpreter, itf iface, name string) (s string, ok bool) {
	fr := &frame{i: i}
	fn := hasMethod(fr, itf.t, name)
	if fn == nil {
		return "", false
	}
	r := call(i, nil, 0, fn, []value{itf.v})
	if str, isStr := r.(string); isStr {
		return str, true
	}
	if ss, isSym := r.(symstr); isSym {
		return symstrDebug(ss), true
	}
	if _, isOp := r.(opaqueStr); isOp {
		return "‹opaque text›", true
	}
	return "", false
}

// render produces the %v rendering of v of (dynamic) type t.
func (c *fmtCtx) render(t types.Type, v value, verb rune, top bool) string {
	fr := c.fr
	if t != nil {
		if _, isPtrNil := v.(*value); !(isPtrNil && v.(*value) == nil) || t == errorType {
			if verb == 'v' || verb == 's' || verb == 'q' {
				for _, m := range []string{"Error", "String"} {
					if fn := hasMethod(fr, t, m); fn != nil {
						r := call(fr.i, fr, 0, fn, []value{v})
						switch r := r.(type) {
						case string:
							return r
						case symstr:
							return c.sentinel(r)
						case opaqueStr:
							c.opaque = true
							if !r.nonEmpty {
								return "‹opaque?›"
							}
							return "‹opaque›"
						}
					}
				}
			}
		}
	}
	switch v := v.(type) {
	case nil:
		return "<nil>"
	case bool:
		return strconv.FormatBool(v)
	case string:
		return v
	case symstr:
		return c.sentinel(v)
	case opaqueStr:
		c.opaque = true
		if !v.nonEmpty {
			return "‹opaque?›"
		}
		return "‹opaque›"
	case sym:
		if cv, ok := c.trySmall(v); ok {
			return fmt.Sprintf("%v", cv)
		}
		c.opaque = true
		return "‹sym›"
	case int, int8, int16, int32, int64, uint, uint8, uint16, uint32, uint64, uintptr, float32, float64, complex64, complex128:
		return fmt.Sprintf("%v", v)
	case iface:
		if v.t == nil {
			return "<nil>"
		}
		return c.render(v.t, v.v, verb, false)
	case *value:
		if v == nil {
			return "<nil>"
		}
		if top && t != nil {
			if pt, ok := t.Underlying().(*types.Pointer); ok {
				switch pt.Elem().Underlying().(type) {
				case *types.Struct, *types.Array, *types.Slice, *types.Map:
					return "&" + c.render(pt.Elem(), *v, verb, false)
				}
			}
		}
		return c.ptr(v)
	case structure:
		var st *types.Struct
		if t != nil {
			st, _ = t.Underlying().(*types.Struct)
		}
		var sb strings.Builder
		sb.WriteByte('{')
		for i, f := range v {
			if i > 0 {
				sb.WriteByte(' ')
			}
			var ft types.Type
			if st != nil {
				ft = st.Field(i).Type()
			}
			sb.WriteString(c.render(ft, f, verb, false))
		}
		sb.WriteByte('}')
		return sb.String()
	case array:
		return c.renderList(t, []value(v), verb)
	case []value:
		if bt, ok := t.(*types.Slice); ok || t == nil {
			_ = bt
		}
		return c.renderList(t, v, verb)
	case *omap:
		var kt, et types.Type
		if t != nil {
			if mt, ok := t.Underlying().(*types.Map); ok {
				kt, et = mt.Key(), mt.Elem()
			}
		}
		type kv struct{ k, v string }
		var kvs []kv
		for _, e := range v.liveEntries(nil) {
			kvs = append(kvs, kv{c.render(kt, e.k, verb, false), c.render(et, e.v, verb, false)})
		}
		sort.Slice(kvs, func(i, j int) bool { return kvs[i].k < kvs[j].k })
		var sb strings.Builder
		sb.WriteString("map[")
		for i, e := range kvs {
			if i > 0 {
				sb.WriteByte(' ')
			}
			sb.WriteString(e.k + ":" + e.v)
		}
		sb.WriteByte(']')
		return sb.String()
	case rtype:
		return typeString(v.t)
	case rval:
		if v.t == nil {
			return "<invalid reflect.Value>"
		}
		return c.render(v.t, v.get(), verb, false)
	case hostObj:
		return fmt.Sprintf("%v", v.v)
	case *ssa.Function, *closure, *boundMethod:
		return "0xfunc"
	case *chanV:
		return "0xchan"
	}
	return fmt.Sprintf("<%T>", v)
}

func (c *fmtCtx) renderList(t types.Type, l []value, verb rune) string {
	var et types.Type
	if t != nil {
		switch u := t.Underlying().(type) {
		case *types.Slice:
			et = u.Elem()
		case *types.Array:
			et = u.Elem()
		}
	}
	var sb strings.Builder
	sb.WriteByte('[')
	for i, e := range l {
		if i > 0 {
			sb.WriteByte(' ')
		}
		sb.WriteString(c.render(et, e, verb, false))
	}
	sb.WriteByte(']')
	return sb.String()
}

func (c *fmtCtx) ptr(p *value) string {
	w := c.fr.i.w
	if w.ptrIDs == nil {
		w.ptrIDs = map[*value]int{}
	}
	id, ok := w.ptrIDs[p]
	if !ok {
		id = len(w.ptrIDs) + 1
		w.ptrIDs[p] = id
	}
	return fmt.Sprintf("0xc%09x", id*16)
}

// hostArg converts an argument for verbs that need the raw scalar (%d %t %x %f ...).
func (c *fmtCtx) hostArg(a value) interface{} {
	if itf, ok := a.(iface); ok {
		a = itf.v
		if itf.t == nil {
			return nil
		}
	}
	switch v := a.(type) {
	case bool, string, int, int8, int16, int32, int64, uint, uint8, uint16, uint32, uint64, uintptr, float32, float64, complex64, complex128:
		return v
	case symstr:
		return c.sentinel(v)
	case opaqueStr:
		c.opaque = true
		if !v.nonEmpty {
			return "‹opaque?›"
		}
		return "‹opaque›"
	case sym:
		if cv, ok := c.trySmall(v); ok {
			return cv
		}
		c.opaque = true
		return "‹sym›"
	case *value:
		return c.ptr(v)
	}
	return c.render(nil, a, 'v', true)
}

func (c *fmtCtx) finish(out string) value {
	if c.opaque {
		// placeholders of symbolic numbers stand for at least one character; those of
		// possibly empty opaque text do not count
		rest := strings.ReplaceAll(out, "‹opaque?›", "")
		return opaqueStr{why: "formatted symbolic value", nonEmpty: len(rest) > 0}
	}
	if len(c.sents) == 0 {
		return out
	}
	var res value = ""
	for {
		i := strings.Index(out, "\x00S")
		if i < 0 {
			break
		}
		j := strings.Index(out[i+2:], "\x00")
		if j < 0 {
			break
		}
		n, _ := strconv.Atoi(out[i+2 : i+2+j])
		res = strConcat(strConcat(res, out[:i]), c.sents[n])
		out = out[i+2+j+1:]
	}
	return strConcat(res, out)
}

func sprintf(fr *frame, format string, args []value) value {
	c := &fmtCtx{fr: fr}
	var sb strings.Builder
	argi := 0
	for i := 0; i < len(format); {
		ch := format[i]
		if ch != '%' {
			sb.WriteByte(ch)
			i++
			continue
		}
		j := i + 1
		for j < len(format) && strings.IndexByte("+-# 0123456789.", format[j]) >= 0 {
			j++
		}
		if j >= len(format) {
			sb.WriteString("%!(NOVERB)")
			break
		}
		verb, sz := utf8.DecodeRuneInString(format[j:])
		spec := format[i : j+sz]
		flags := format[i+1 : j]
		i = j + sz
		if verb == '%' {
			sb.WriteByte('%')
			continue
		}
		if argi >= len(args) {
			sb.WriteString("%!" + string(verb) + "(MISSING)")
			continue
		}
		a := args[argi]
		argi++
		switch verb {
		case 'v', 's':
			if strings.Contains(flags, "#") && verb == 'v' {
				// %#v: Go-syntax; render concrete scalars natively, the rest plainly
				sb.WriteString(fmt.Sprintf("%#v", c.hostArg(a)))
				continue
			}
			var s string
			if itf, ok := a.(iface); ok {
				if itf.t == nil {
					if verb == 's' {
						s = "%!s(<nil>)"
					} else {
						s = "<nil>"
					}
				} else {
					s = c.render(itf.t, itf.v, verb, true)
				}
			} else {
				s = c.render(nil, a, verb, true)
			}
			if flags != "" && !strings.Contains(s, "\x00S") {
				s = fmt.Sprintf("%"+flags+"s", s)
			}
			sb.WriteString(s)
		case 'T':
			if itf, ok := a.(iface); ok && itf.t != nil {
				sb.WriteString(typeString(itf.t))
			} else {
				sb.WriteString("<nil>")
			}
		case 'q':
			var s string
			if itf, ok := a.(iface); ok && itf.t != nil {
				s = c.render(itf.t, itf.v, verb, true)
			} else {
				s = c.render(nil, a, verb, true)
			}
			if strings.Contains(s, "\x00S") {
				c.opaque = true
				sb.WriteString("\"" + s + "\"")
			} else {
				sb.WriteString(strconv.Quote(s))
			}
		case 'p':
			sb.WriteString(fmt.Sprintf("%v", c.hostArg(a)))
		default:
			sb.WriteString(fmt.Sprintf(spec, c.hostArg(a)))
		}
	}
	if argi < len(args) {
		sb.WriteString("%!(EXTRA ...)")
	}
	if c.opaque {
		fr.i.w.stub("fmt: symbolic scalar rendered as opaque text")
	}
	return c.finish(sb.String())
}

func ext۰fmt۰Sprintf(fr *frame, args []value) value {
	return sprintf(fr, concreteStr(fr, args[0], "fmt.Sprintf format"), args[1].([]value))
}

func ext۰fmt۰Errorf(fr *frame, args []value) value {
	format := concreteStr(fr, args[0], "fmt.Errorf format")
	format = strings.ReplaceAll(format, "%w", "%v")
	s := sprintf(fr, format, args[1].([]value))
	return iface{t: errorType, v: s}
}

func sprint(fr *frame, args []value, ln bool) value {
	c := &fmtCtx{fr: fr}
	var sb strings.Builder
	wasStr := false
	for i, arg := range args {
		itf := arg.(iface)
		isStr := false
		if itf.t != nil && itf.t != errorType {
			if b, ok := itf.t.Underlying().(*types.Basic); ok && b.Kind() == types.String {
				isStr = true
			}
		}
		if i > 0 && (ln || (!wasStr && !isStr)) {
			sb.WriteByte(' ')
		}
		wasStr = isStr
		if itf.t == nil {
			sb.WriteString("<nil>")
		} else {
			sb.WriteString(c.render(itf.t, itf.v, 'v', true))
		}
	}
	if ln {
		sb.WriteByte('\n')
	}
	return c.finish(sb.String())
}

func ext۰fmt۰Sprint(fr *frame, args []value) value   { return sprint(fr, args[0].([]value), false) }
func ext۰fmt۰Sprintln(fr *frame, args []value) value { return sprint(fr, args[0].([]value), true) }
func ext۰fmt۰Println(fr *frame, args []value) value {
	s := sprint(fr, args[0].([]value), true)
	fmt.Fprint(os.Stderr, toString(s))
	return tuple{0, iface{}}
}
func ext۰fmt۰Printf(fr *frame, args []value) value {
	s := sprintf(fr, concreteStr(fr, args[0], "fmt.Printf format"), args[1].([]value))
	fmt.Fprint(os.Stderr, toString(s))
	return tuple{0, iface{}}
}

// ---------------- math ----------------

func ext۰math۰Float64frombits(fr *frame, args []value) value {
	if s, ok := args[0].(sym); ok {
		return mkSym(types.Float64, tFFromBits(s.t, SF64))
	}
	return math.Float64frombits(args[0].(uint64))
}

func ext۰math۰Float64bits(fr *frame, args []value) value {
	if _, ok := args[0].(sym); ok {
		fr.i.w.unsupported("math.Float64bits on a symbolic float")
	}
	return math.Float64bits(args[0].(float64))
}

func ext۰math۰Float32frombits(fr *frame, args []value) value {
	if s, ok := args[0].(sym); ok {
		return mkSym(types.Float32, tFFromBits(s.t, SF32))
	}
	return math.Float32frombits(args[0].(uint32))
}

func ext۰math۰Float32bits(fr *frame, args []value) value {
	if _, ok := args[0].(sym); ok {
		fr.i.w.unsupported("math.Float32bits on a symbolic float")
	}
	return math.Float32bits(args[0].(float32))
}

func ext۰math۰Abs(fr *frame, args []value) value {
	if s, ok := args[0].(sym); ok {
		neg := tFCmp(OpFLt, s.t, mkFloat(SF64, 0))
		return mkSym(types.Float64, tIte(neg, tFNeg(s.t), s.t))
	}
	return math.Abs(args[0].(float64))
}

func ext۰math۰NaN(fr *frame, args []value) value { return math.NaN() }

func ext۰math۰IsNaN(fr *frame, args []value) value {
	if s, ok := args[0].(sym); ok {
		return mkSymBool(tFIsNaN(s.t))
	}
	return math.IsNaN(args[0].(float64))
}

func ext۰math۰IsInf(fr *frame, args []value) value {
	sign := int(asInt64(fr.i.w.concrete(args[1])))
	if s, ok := args[0].(sym); ok {
		inf := tFIsInf(s.t)
		switch {
		case sign > 0:
			inf = tAnd(inf, tFCmp(OpFLt, mkFloat(SF64, 0), s.t))
		case sign < 0:
			inf = tAnd(inf, tFCmp(OpFLt, s.t, mkFloat(SF64, 0)))
		}
		return mkSymBool(inf)
	}
	return math.IsInf(args[0].(float64), sign)
}

func ext۰math۰Inf(fr *frame, args []value) value {
	return math.Inf(int(asInt64(args[0])))
}

func ext۰math۰Trunc(fr *frame, args []value) value {
	if _, ok := args[0].(sym); ok {
		fr.i.w.unsupported("math.Trunc on a symbolic float")
	}
	return math.Trunc(args[0].(float64))
}

func ext۰math۰Floor(fr *frame, args []value) value {
	if _, ok := args[0].(sym); ok {
		fr.i.w.unsupported("math.Floor on a symbolic float")
	}
	return math.Floor(args[0].(float64))
}

// ---------------- environment stubs ----------------

func ext۰os۰Getenv(fr *frame, args []value) value {
	fr.i.w.stub("os.Getenv: environment is empty")
	return ""
}

func ext۰os۰LookupEnv(fr *frame, args []value) value {
	fr.i.w.stub("os.LookupEnv: environment is empty")
	return tuple{"", false}
}

func ext۰os۰Exit(fr *frame, args []value) value {
	fr.i.w.unsupported("os.Exit")
	return nil
}

func ext۰debug۰Stack(fr *frame, args []value) value {
	return []value{}
}

func ext۰time۰Now(fr *frame, args []value) value {
	fr.i.w.stub("time.Now: constant instant")
	return zero(fr.fn.Signature.Results().At(0).Type())
}

func ext۰time۰Time۰Unix(fr *frame, args []value) value { return int64(1700000000) }

func ext۰time۰ParseDuration(fr *frame, args []value) value {
	if o, isOpaque := args[0].(opaqueStr); isOpaque {
		opaqueAbort(o)
	}
	s, ok := args[0].(string)
	if !ok {
		// contract stub: arbitrary (duration, nil) or (0, error)
		w := fr.i.w
		w.stub("time.ParseDuration on symbolic text: arbitrary result")
		w.tainted = true
		if w.choose(2) == 0 {
			return tuple{w.newInput("!ParseDuration", types.Int64), iface{}}
		}
		return tuple{int64(0), mkError(fr, "time: invalid duration")}
	}
	d, err := time.ParseDuration(s)
	return tuple{int64(d), errOrNil(fr, err)}
}

func ext۰time۰Duration۰String(fr *frame, args []value) value {
	if _, ok := args[0].(sym); ok {
		fr.i.w.stub("time.Duration.String on a symbolic duration: opaque text")
		return opaqueStr{why: "time.Duration.String of a symbolic duration", nonEmpty: true}
	}
	return time.Duration(args[0].(int64)).String()
}

func ext۰filepath۰Ext(fr *frame, args []value) value {
	return filepath.Ext(concreteStr(fr, args[0], "filepath.Ext"))
}

// ---------------- regexp ----------------

func regexpValue(re *regexp.Regexp) value {
	var cell value = hostObj{re}
	return &cell
}

func ext۰regexp۰Compile(fr *frame, args []value) value {
	if o, isOpaque := args[0].(opaqueStr); isOpaque {
		opaqueAbort(o)
	}
	s, ok := args[0].(string)
	if !ok {
		w := fr.i.w
		w.stub("regexp.Compile on symbolic text: arbitrary outcome")
		w.tainted = true
		if w.choose(2) == 0 {
			return tuple{regexpValue(regexp.MustCompile("x")), iface{}}
		}
		return tuple{(*value)(nil), mkError(fr, "error parsing regexp")}
	}
	re, err := regexp.Compile(s)
	if err != nil {
		return tuple{(*value)(nil), errOrNil(fr, err)}
	}
	return tuple{regexpValue(re), iface{}}
}

func ext۰regexp۰MustCompile(fr *frame, args []value) value {
	re, err := regexp.Compile(concreteStr(fr, args[0], "regexp.MustCompile"))
	if err != nil {
		panic(targetPanic{iface{types.Typ[types.String], "regexp: Compile: " + err.Error()}})
	}
	return regexpValue(re)
}

func hostRegexp(v value) *regexp.Regexp {
	p := v.(*value)
	if p == nil {
		panic(nilDeref)
	}
	h, ok := (*p).(hostObj)
	if !ok || h.v == nil {
		return regexp.MustCompile("")
	}
	return h.v.(*regexp.Regexp)
}

func ext۰regexp۰String(fr *frame, args []value) value { return hostRegexp(args[0]).String() }

func ext۰regexp۰MatchString(fr *frame, args []value) value {
	return hostRegexp(args[0]).MatchString(concreteStr(fr, args[1], "regexp.MatchString"))
}

func ext۰regexp۰ReplaceAllString(fr *frame, args []value) value {
	re := hostRegexp(args[0])
	repl := concreteStr(fr, args[2], "regexp.ReplaceAllString")
	s, ok := args[1].(string)
	if !ok {
		fr.i.w.unsupported("regexp.ReplaceAllString on a symbolic string")
	}
	return re.ReplaceAllString(s, repl)
}

// ---------------- sort / atomic ----------------

func ext۰sort۰Strings(fr *frame, args []value) value {
	x := args[0].([]value)
	allc := true
	for _, e := range x {
		if _, ok := e.(string); !ok {
			allc = false
		}
	}
	if allc {
		sort.Slice(x, func(i, j int) bool { return x[i].(string) < x[j].(string) })
		return nil
	}
	// symbolic elements: insertion sort, every comparison a solver-decided branch
	for i := 1; i < len(x); i++ {
		for j := i; j > 0 && fr.i.w.truth(strLess(x[j], x[j-1])); j-- {
			x[j], x[j-1] = x[j-1], x[j]
		}
	}
	return nil
}

// sort.Slice(x, less): insertion sort over the interpreted slice, every call of less interpreted
// (the real one goes through internal/reflectlite). Deterministic, like any stable run of the
// library's sort for a strict weak order.
func ext۰sort۰Slice(fr *frame, args []value) value {
	x, ok := args[0].(iface).v.([]value)
	if !ok {
		fr.i.w.unsupported("sort.Slice on a non-slice value")
	}
	less := args[1]
	for i := 1; i < len(x); i++ {
		for j := i; j > 0 && fr.i.w.truth(call(fr.i, fr, 0, less, []value{j, j - 1})); j-- {
			x[j], x[j-1] = x[j-1], x[j]
		}
	}
	return nil
}

func ext۰atomic۰AddInt32(fr *frame, args []value) value {
	p := args[0].(*value)
	*p = (*p).(int32) + args[1].(int32)
	return *p
}

func ext۰atomic۰AddInt64(fr *frame, args []value) value {
	p := args[0].(*value)
	*p = (*p).(int64) + args[1].(int64)
	return *p
}

func ext۰atomic۰Load(fr *frame, args []value) value { return *args[0].(*value) }
func ext۰atomic۰Store(fr *frame, args []value) value {
	*args[0].(*value) = args[1]
	return nil
}

// ---------------- strconv ----------------

func strconvErr(fr *frame, err error) value { return errOrNil(fr, err) }

// interpretFallback runs the function's own SSA body (the package must be interpretable).
func interpretFallback(fr *frame, args []value) value {
	fn := fr.fn
	info := *fr.info
	info.ext = nil
	nfr := &frame{i: fr.i, caller: fr.caller, fn: fn, info: &info, depth: fr.depth}
	return runBody(nfr, args)
}

func runBody(fr *frame, args []value) value {
	fn := fr.fn
	info := fr.info
	fr.env = make([]value, info.n)
	fr.block = fn.Blocks[0]
	fr.locals = make([]value, len(fn.Locals))
	for i, l := range fn.Locals {
		fr.locals[i] = zero(deref(l.Type()))
		fr.env[info.slots[l]] = &fr.locals[i]
	}
	for i, p := range fn.Params {
		fr.env[info.slots[p]] = args[i]
	}
	for fr.block != nil {
		runFrame(fr)
	}
	return fr.result
}

func ext۰strconv۰ParseFloat(fr *frame, args []value) value {
	if o, isOpaque := args[0].(opaqueStr); isOpaque {
		opaqueAbort(o)
	}
	s, ok := args[0].(string)
	bits := int(asInt64(fr.i.w.concrete(args[1])))
	if !ok {
		// Contract stub (over-approximation): strconv.ParseFloat on symbolic
		// text either fails or yields an arbitrary float64.
		w := fr.i.w
		w.stub("strconv.ParseFloat on symbolic text: arbitrary (float64, nil) or (0, error)")
		w.tainted = true
		if w.choose(2) == 0 {
			return tuple{float64(0), mkError(fr, "strconv.ParseFloat: parsing ‹sym›: invalid syntax")}
		}
		return tuple{w.newInput("!ParseFloat", types.Float64), iface{}}
	}
	f, err := strconv.ParseFloat(s, bits)
	return tuple{f, strconvErr(fr, err)}
}

func fromStrconv(fr *frame) bool {
	return fr.caller != nil && fr.caller.fn.Pkg != nil && fr.caller.fn.Pkg.Pkg.Path() == "strconv"
}

func ext۰strconv۰ParseInt(fr *frame, args []value) value {
	if s, ok := args[0].(string); ok && allConcrete(args[1], args[2]) && !fromStrconv(fr) {
		v, err := strconv.ParseInt(s, int(asInt64(args[1])), int(asInt64(args[2])))
		return tuple{v, strconvErr(fr, err)}
	}
	return interpretFallback(fr, args)
}

func ext۰strconv۰ParseUint(fr *frame, args []value) value {
	if s, ok := args[0].(string); ok && allConcrete(args[1], args[2]) && !fromStrconv(fr) {
		v, err := strconv.ParseUint(s, int(asInt64(args[1])), int(asInt64(args[2])))
		return tuple{v, strconvErr(fr, err)}
	}
	return interpretFallback(fr, args)
}

func ext۰strconv۰ParseBool(fr *frame, args []value) value {
	if s, ok := args[0].(string); ok {
		v, err := strconv.ParseBool(s)
		return tuple{v, strconvErr(fr, err)}
	}
	return interpretFallback(fr, args)
}

func ext۰strconv۰Unquote(fr *frame, args []value) value {
	if s, ok := args[0].(string); ok {
		v, err := strconv.Unquote(s)
		return tuple{v, strconvErr(fr, err)}
	}
	return interpretFallback(fr, args)
}

func ext۰strconv۰Atoi(fr *frame, args []value) value {
	if s, ok := args[0].(string); ok {
		v, err := strconv.Atoi(s)
		return tuple{v, strconvErr(fr, err)}
	}
	return interpretFallback(fr, args)
}

func ext۰strconv۰Itoa(fr *frame, args []value) value {
	if _, ok := args[0].(sym); ok {
		fr.i.w.stub("strconv.Itoa on a symbolic int: opaque text")
		return opaqueStr{why: "strconv.Itoa of a symbolic number", nonEmpty: true}
	}
	return strconv.Itoa(args[0].(int))
}

func ext۰strconv۰Quote(fr *frame, args []value) value {
	return strconv.Quote(concreteStr(fr, args[0], "strconv.Quote"))
}

func ext۰strconv۰FormatInt(fr *frame, args []value) value {
	if !allConcrete(args...) {
		fr.i.w.stub("strconv.FormatInt on a symbolic int: opaque text")
		return opaqueStr{why: "strconv.FormatInt of a symbolic number", nonEmpty: true}
	}
	return strconv.FormatInt(args[0].(int64), int(asInt64(args[1])))
}

func ext۰strconv۰FormatUint(fr *frame, args []value) value {
	if !allConcrete(args...) {
		fr.i.w.stub("strconv.FormatUint on a symbolic int: opaque text")
		return opaqueStr{why: "strconv.FormatUint of a symbolic number", nonEmpty: true}
	}
	return strconv.FormatUint(args[0].(uint64), int(asInt64(args[1])))
}

func ext۰strconv۰FormatFloat(fr *frame, args []value) value {
	if !allConcrete(args...) {
		fr.i.w.stub("strconv.FormatFloat on a symbolic float: opaque text")
		return opaqueStr{why: "strconv.FormatFloat of a symbolic number", nonEmpty: true}
	}
	return strconv.FormatFloat(args[0].(float64), args[1].(byte), int(asInt64(args[2])), int(asInt64(args[3])))
}

func ext۰strconv۰FormatBool(fr *frame, args []value) value {
	if b, ok := args[0].(bool); ok {
		return strconv.FormatBool(b)
	}
	if fr.i.w.truth(args[0]) {
		return "true"
	}
	return "false"
}

// ---------------- strings ----------------

// byteIn builds the condition "b is one of chars".
func byteIn(b value, chars string) *Term {
	bt := byteTerm(b)
	r := tFalse
	for i := 0; i < len(chars); i++ {
		r = tOr(r, tEq(bt, mkConst(SBV8, uint64(chars[i]))))
	}
	return r
}

// indexWhere returns the first index i in [0,n) where cond(i) holds, forking
// on each position; -1 if none.
func (w *worker) indexWhere(n int, cond func(i int) *Term) int {
	for i := 0; i < n; i++ {
		if w.branch(cond(i)) {
			return i
		}
	}
	return -1
}

func (w *worker) lastIndexWhere(n int, cond func(i int) *Term) int {
	for i := n - 1; i >= 0; i-- {
		if w.branch(cond(i)) {
			return i
		}
	}
	return -1
}

func ext۰strings۰IndexByte(fr *frame, args []value) value {
	if s, ok := args[0].(string); ok {
		if c, ok := args[1].(byte); ok {
			return strings.IndexByte(s, c)
		}
	}
	b := strBytes(args[0])
	ct := byteTerm(args[1])
	return fr.i.w.indexWhere(len(b), func(i int) *Term { return tEq(byteTerm(b[i]), ct) })
}

func ext۰bytealg۰IndexByteString(fr *frame, args []value) value { return ext۰strings۰IndexByte(fr, args) }

func ext۰bytealg۰LastIndexByteString(fr *frame, args []value) value {
	b := strBytes(args[0])
	ct := byteTerm(args[1])
	return fr.i.w.lastIndexWhere(len(b), func(i int) *Term { return tEq(byteTerm(b[i]), ct) })
}

func ext۰bytealg۰IndexByte(fr *frame, args []value) value {
	b := args[0].([]value)
	ct := byteTerm(args[1])
	return fr.i.w.indexWhere(len(b), func(i int) *Term { return tEq(byteTerm(b[i]), ct) })
}

func ext۰bytealg۰CountString(fr *frame, args []value) value {
	b := strBytes(args[0])
	ct := byteTerm(args[1])
	n := 0
	for i := range b {
		if fr.i.w.branch(tEq(byteTerm(b[i]), ct)) {
			n++
		}
	}
	return n
}

func ext۰bytealg۰Equal(fr *frame, args []value) value {
	a, b := args[0].([]value), args[1].([]value)
	if len(a) != len(b) {
		return false
	}
	r := tTrue
	for i := range a {
		r = tAnd(r, tEq(byteTerm(a[i]), byteTerm(b[i])))
	}
	return mkSymBool(r)
}

func ext۰bytealg۰MakeNoZero(fr *frame, args []value) value {
	n := int(asInt64(fr.i.w.concrete(args[0])))
	s := make([]value, n)
	for i := range s {
		s[i] = byte(0)
	}
	return s
}

func ext۰stringslite۰Clone(fr *frame, args []value) value { return args[0] }

func ext۰strings۰IndexAny(fr *frame, args []value) value {
	chars := concreteStr(fr, args[1], "strings.IndexAny chars")
	if s, ok := args[0].(string); ok {
		return strings.IndexAny(s, chars)
	}
	for i := 0; i < len(chars); i++ {
		if chars[i] >= utf8.RuneSelf {
			fr.i.w.unsupported("strings.IndexAny with non-ASCII chars on a symbolic string")
		}
	}
	b := strBytes(args[0])
	return fr.i.w.indexWhere(len(b), func(i int) *Term { return byteIn(b[i], chars) })
}

func ext۰bytealg۰IndexString(fr *frame, args []value) value { return ext۰strings۰Index(fr, args) }

// matchAt builds "s[i:i+len(sub)] == sub".
func matchAt(s, sub []value, i int) *Term {
	r := tTrue
	for j := range sub {
		r = tAnd(r, tEq(byteTerm(s[i+j]), byteTerm(sub[j])))
	}
	return r
}

func ext۰strings۰Index(fr *frame, args []value) value {
	if allConcrete(args...) {
		return strings.Index(args[0].(string), args[1].(string))
	}
	s, sub := strBytes(args[0]), strBytes(args[1])
	if len(sub) > len(s) {
		return -1
	}
	return fr.i.w.indexWhere(len(s)-len(sub)+1, func(i int) *Term { return matchAt(s, sub, i) })
}

func ext۰strings۰LastIndex(fr *frame, args []value) value {
	if allConcrete(args...) {
		return strings.LastIndex(args[0].(string), args[1].(string))
	}
	s, sub := strBytes(args[0]), strBytes(args[1])
	if len(sub) > len(s) {
		return -1
	}
	return fr.i.w.lastIndexWhere(len(s)-len(sub)+1, func(i int) *Term { return matchAt(s, sub, i) })
}

func ext۰strings۰Contains(fr *frame, args []value) value {
	if allConcrete(args...) {
		return strings.Contains(args[0].(string), args[1].(string))
	}
	s, sub := strBytes(args[0]), strBytes(args[1])
	if len(sub) > len(s) {
		return false
	}
	r := tFalse
	for i := 0; i+len(sub) <= len(s); i++ {
		r = tOr(r, matchAt(s, sub, i))
	}
	return mkSymBool(r)
}

func ext۰strings۰ContainsAny(fr *frame, args []value) value {
	chars := concreteStr(fr, args[1], "strings.ContainsAny chars")
	if s, ok := args[0].(string); ok {
		return strings.ContainsAny(s, chars)
	}
	r := tFalse
	for _, b := range strBytes(args[0]) {
		r = tOr(r, byteIn(b, chars))
	}
	return mkSymBool(r)
}

func ext۰strings۰ContainsRune(fr *frame, args []value) value {
	if allConcrete(args...) {
		return strings.ContainsRune(args[0].(string), args[1].(rune))
	}
	r, ok := args[1].(rune)
	if !ok || r >= utf8.RuneSelf {
		fr.i.w.unsupported("strings.ContainsRune with symbolic or non-ASCII rune")
	}
	res := tFalse
	for _, b := range strBytes(args[0]) {
		res = tOr(res, tEq(byteTerm(b), mkConst(SBV8, uint64(r))))
	}
	return mkSymBool(res)
}

func ext۰strings۰HasPrefix(fr *frame, args []value) value {
	if allConcrete(args...) {
		return strings.HasPrefix(args[0].(string), args[1].(string))
	}
	s, p := strBytes(args[0]), strBytes(args[1])
	if len(p) > len(s) {
		return false
	}
	return mkSymBool(matchAt(s, p, 0))
}

func ext۰strings۰HasSuffix(fr *frame, args []value) value {
	if allConcrete(args...) {
		return strings.HasSuffix(args[0].(string), args[1].(string))
	}
	s, p := strBytes(args[0]), strBytes(args[1])
	if len(p) > len(s) {
		return false
	}
	return mkSymBool(matchAt(s, p, len(s)-len(p)))
}

func ext۰strings۰TrimPrefix(fr *frame, args []value) value {
	if fr.i.w.truth(ext۰strings۰HasPrefix(fr, args)) {
		return strSlice(args[0], strLen(args[1]), strLen(args[0]))
	}
	return args[0]
}

func ext۰strings۰TrimSuffix(fr *frame, args []value) value {
	if fr.i.w.truth(ext۰strings۰HasSuffix(fr, args)) {
		return strSlice(args[0], 0, strLen(args[0])-strLen(args[1]))
	}
	return args[0]
}

// isSpaceByte builds unicode.IsSpace for a single ASCII/Latin-1 byte that is
// a whole rune (b < 0x80); bytes >= 0x80 in symbolic strings are outside the
// string model (see decodeRuneSym).
func isSpaceByteTerm(bt *Term) *Term {
	c := func(x byte) *Term { return mkConst(SBV8, uint64(x)) }
	return tOr(tEq(bt, c(' ')), tAnd(tBVCmp(OpBVULe, c('\t'), bt), tBVCmp(OpBVULe, bt, c('\r'))))
}

func (w *worker) asciiOnly(b value, what string) {
	if s, ok := b.(sym); ok {
		if !w.branch(tBVCmp(OpBVULt, s.t, mkConst(SBV8, 0x80))) {
			w.unsupported("non-ASCII symbolic byte in " + what)
		}
	}
}

func trimSym(fr *frame, s value, left, right bool, pred func(b value) *Term) value {
	b := strBytes(s)
	lo, hi := 0, len(b)
	w := fr.i.w
	if left {
		for lo < hi {
			w.asciiOnly(b[lo], "strings.Trim*")
			if !w.branch(pred(b[lo])) {
				break
			}
			lo++
		}
	}
	if right {
		for hi > lo {
			w.asciiOnly(b[hi-1], "strings.Trim*")
			if !w.branch(pred(b[hi-1])) {
				break
			}
			hi--
		}
	}
	return mkString(b[lo:hi])
}

func ext۰strings۰TrimSpace(fr *frame, args []value) value {
	if s, ok := args[0].(string); ok {
		return strings.TrimSpace(s)
	}
	return trimSym(fr, args[0], true, true, func(b value) *Term { return isSpaceByteTerm(byteTerm(b)) })
}

func ext۰strings۰TrimLeftFunc(fr *frame, args []value) value {
	fn, _ := args[1].(*ssa.Function)
	isSpace := fn != nil && fn.String() == "unicode.IsSpace"
	if s, ok := args[0].(string); ok && isSpace {
		return strings.TrimLeftFunc(s, unicode.IsSpace)
	}
	if isSpace {
		return trimSym(fr, args[0], true, false, func(b value) *Term { return isSpaceByteTerm(byteTerm(b)) })
	}
	return interpretFallback(fr, args)
}

func ext۰strings۰Trim(fr *frame, args []value) value {
	cut := concreteStr(fr, args[1], "strings.Trim cutset")
	if s, ok := args[0].(string); ok {
		return strings.Trim(s, cut)
	}
	return trimSym(fr, args[0], true, true, func(b value) *Term { return byteIn(b, cut) })
}

func splitSym(fr *frame, s value, sep string, n int) value {
	if sep == "" {
		fr.i.w.unsupported("strings.Split with empty separator on a symbolic string")
	}
	b := strBytes(s)
	sepb := strBytes(sep)
	var parts []value
	start := 0
	i := 0
	w := fr.i.w
	for i+len(sepb) <= len(b) {
		if n > 0 && len(parts) == n-1 {
			break
		}
		if w.branch(matchAt(b, sepb, i)) {
			parts = append(parts, mkString(b[start:i]))
			i += len(sepb)
			start = i
		} else {
			i++
		}
	}
	parts = append(parts, mkString(b[start:]))
	return parts
}

func stringsToValue(ss []string) value {
	out := make([]value, len(ss))
	for i, s := range ss {
		out[i] = s
	}
	return out
}

func ext۰strings۰Split(fr *frame, args []value) value {
	sep := concreteStr(fr, args[1], "strings.Split separator")
	if s, ok := args[0].(string); ok {
		return stringsToValue(strings.Split(s, sep))
	}
	return splitSym(fr, args[0], sep, -1)
}

func ext۰strings۰SplitN(fr *frame, args []value) value {
	sep := concreteStr(fr, args[1], "strings.SplitN separator")
	n := int(asInt64(fr.i.w.concrete(args[2])))
	if s, ok := args[0].(string); ok {
		r := strings.SplitN(s, sep, n)
		if r == nil {
			return []value(nil)
		}
		return stringsToValue(r)
	}
	if n == 0 {
		return []value(nil)
	}
	return splitSym(fr, args[0], sep, n)
}

func ext۰strings۰Join(fr *frame, args []value) value {
	elems := args[0].([]value)
	var res value = ""
	for i, e := range elems {
		if i > 0 {
			res = strConcat(res, args[1])
		}
		res = strConcat(res, e)
	}
	return res
}

func mapBytesSym(fr *frame, s value, what string, f func(bt *Term) *Term, native func(string) string) value {
	if str, ok := s.(string); ok {
		return native(str)
	}
	b := strBytes(s)
	out := make([]value, len(b))
	for i, x := range b {
		if c, ok := x.(byte); ok {
			if c >= utf8.RuneSelf {
				fr.i.w.unsupported(what + " with non-ASCII bytes in a symbolic string")
			}
			out[i] = native(string(rune(c)))[0]
			continue
		}
		fr.i.w.asciiOnly(x, what)
		out[i] = mkSym(types.Uint8, f(x.(sym).t))
	}
	return mkString(out)
}

func ext۰strings۰ToLower(fr *frame, args []value) value {
	return mapBytesSym(fr, args[0], "strings.ToLower", func(bt *Term) *Term {
		up := tAnd(tBVCmp(OpBVULe, mkConst(SBV8, 'A'), bt), tBVCmp(OpBVULe, bt, mkConst(SBV8, 'Z')))
		return tIte(up, tBV(OpBVAdd, bt, mkConst(SBV8, 32)), bt)
	}, strings.ToLower)
}

func ext۰strings۰ToUpper(fr *frame, args []value) value {
	return mapBytesSym(fr, args[0], "strings.ToUpper", func(bt *Term) *Term {
		lo := tAnd(tBVCmp(OpBVULe, mkConst(SBV8, 'a'), bt), tBVCmp(OpBVULe, bt, mkConst(SBV8, 'z')))
		return tIte(lo, tBV(OpBVSub, bt, mkConst(SBV8, 32)), bt)
	}, strings.ToUpper)
}

func ext۰strings۰Repeat(fr *frame, args []value) value {
	n := int(asInt64(fr.i.w.concrete(args[1])))
	if n < 0 {
		panic(targetPanic{iface{types.Typ[types.String], "strings: negative Repeat count"}})
	}
	var res value = ""
	for i := 0; i < n; i++ {
		res = strConcat(res, args[0])
	}
	return res
}

func ext۰strings۰Replace(fr *frame, args []value) value {
	if allConcrete(args...) {
		return strings.Replace(args[0].(string), args[1].(string), args[2].(string), int(asInt64(args[3])))
	}
	old := concreteStr(fr, args[1], "strings.Replace old")
	n := int(asInt64(fr.i.w.concrete(args[3])))
	parts := splitSym(fr, args[0], old, n+1).([]value)
	if n < 0 {
		parts = splitSym(fr, args[0], old, -1).([]value)
	}
	return ext۰strings۰Join(fr, []value{parts, args[2]})
}

func ext۰strings۰ReplaceAll(fr *frame, args []value) value {
	return ext۰strings۰Replace(fr, []value{args[0], args[1], args[2], -1})
}

func ext۰strings۰EqualFold(fr *frame, args []value) value {
	if allConcrete(args...) {
		return strings.EqualFold(args[0].(string), args[1].(string))
	}
	a := ext۰strings۰ToLower(fr, args[:1])
	b := ext۰strings۰ToLower(fr, args[1:2])
	return equals(fr.i.w, types.Typ[types.String], a, b)
}

func ext۰strings۰Count(fr *frame, args []value) value {
	if allConcrete(args...) {
		return strings.Count(args[0].(string), args[1].(string))
	}
	sep := concreteStr(fr, args[1], "strings.Count separator")
	return len(splitSym(fr, args[0], sep, -1).([]value)) - 1
}

func ext۰strings۰Fields(fr *frame, args []value) value {
	return stringsToValue(strings.Fields(concreteStr(fr, args[0], "strings.Fields")))
}

// ---------------- unicode ----------------

func runeArg(fr *frame, v value, what string) (rune, *Term, bool) {
	if s, ok := v.(sym); ok {
		// symbolic runes come from ASCII bytes of symbolic strings
		if !fr.i.w.branch(tBVCmp(OpBVULt, s.t, mkConst(SBV32, 0x80))) {
			fr.i.w.unsupported(what + " on a non-ASCII symbolic rune")
		}
		return 0, s.t, true
	}
	return v.(rune), nil, false
}

func between(t *Term, lo, hi rune) *Term {
	return tAnd(tBVCmp(OpBVULe, mkConst(SBV32, uint64(lo)), t), tBVCmp(OpBVULe, t, mkConst(SBV32, uint64(hi))))
}

func ext۰unicode۰IsSpace(fr *frame, args []value) value {
	r, t, isSym := runeArg(fr, args[0], "unicode.IsSpace")
	if !isSym {
		return unicode.IsSpace(r)
	}
	return mkSymBool(tOr(tEq(t, mkConst(SBV32, ' ')), between(t, '\t', '\r')))
}

func ext۰unicode۰IsUpper(fr *frame, args []value) value {
	r, t, isSym := runeArg(fr, args[0], "unicode.IsUpper")
	if !isSym {
		return unicode.IsUpper(r)
	}
	return mkSymBool(between(t, 'A', 'Z'))
}

func ext۰unicode۰IsLower(fr *frame, args []value) value {
	r, t, isSym := runeArg(fr, args[0], "unicode.IsLower")
	if !isSym {
		return unicode.IsLower(r)
	}
	return mkSymBool(between(t, 'a', 'z'))
}

func ext۰unicode۰IsDigit(fr *frame, args []value) value {
	r, t, isSym := runeArg(fr, args[0], "unicode.IsDigit")
	if !isSym {
		return unicode.IsDigit(r)
	}
	return mkSymBool(between(t, '0', '9'))
}

func ext۰unicode۰IsLetter(fr *frame, args []value) value {
	r, t, isSym := runeArg(fr, args[0], "unicode.IsLetter")
	if !isSym {
		return unicode.IsLetter(r)
	}
	return mkSymBool(tOr(between(t, 'a', 'z'), between(t, 'A', 'Z')))
}

func ext۰unicode۰ToLower(fr *frame, args []value) value {
	r, t, isSym := runeArg(fr, args[0], "unicode.ToLower")
	if !isSym {
		return unicode.ToLower(r)
	}
	return mkSym(types.Int32, tIte(between(t, 'A', 'Z'), tBV(OpBVAdd, t, mkConst(SBV32, 32)), t))
}

func ext۰unicode۰ToUpper(fr *frame, args []value) value {
	r, t, isSym := runeArg(fr, args[0], "unicode.ToUpper")
	if !isSym {
		return unicode.ToUpper(r)
	}
	return mkSym(types.Int32, tIte(between(t, 'a', 'z'), tBV(OpBVSub, t, mkConst(SBV32, 32)), t))
}

func ext۰utf8۰DecodeRuneInString(fr *frame, args []value) value {
	if s, ok := args[0].(string); ok {
		r, n := utf8.DecodeRuneInString(s)
		return tuple{r, n}
	}
	if strLen(args[0]) == 0 {
		return tuple{rune(utf8.RuneError), 0}
	}
	r, n := decodeRuneSym(fr, args[0], 0)
	return tuple{r, n}
}

func ext۰utf8۰DecodeLastRuneInString(fr *frame, args []value) value {
	if s, ok := args[0].(string); ok {
		r, n := utf8.DecodeLastRuneInString(s)
		return tuple{r, n}
	}
	b := strBytes(args[0])
	fr.i.w.asciiOnly(b[len(b)-1], "utf8.DecodeLastRuneInString")
	if c, ok := b[len(b)-1].(byte); ok {
		if c >= utf8.RuneSelf {
			fr.i.w.unsupported("utf8.DecodeLastRuneInString on a multi-byte tail of a symbolic string")
		}
		return tuple{rune(c), 1}
	}
	return tuple{mkSym(types.Int32, tZeroExt(b[len(b)-1].(sym).t, SBV32)), 1}
}

func ext۰utf8۰RuneCountInString(fr *frame, args []value) value {
	if s, ok := args[0].(string); ok {
		return utf8.RuneCountInString(s)
	}
	n := 0
	for off := 0; off < strLen(args[0]); {
		_, sz := decodeRuneSym(fr, args[0], off)
		off += sz
		n++
	}
	return n
}

func ext۰utf8۰ValidString(fr *frame, args []value) value {
	if s, ok := args[0].(string); ok {
		return utf8.ValidString(s)
	}
	for off := 0; off < strLen(args[0]); {
		_, sz := decodeRuneSym(fr, args[0], off)
		off += sz
	}
	return true
}

// ---------------- encoding/json (generic trees only) ----------------

// toHost converts a generic tree (the values Unpack stores into interface{}) to host Go values.
func toHost(fr *frame, v value) interface{} {
	switch x := v.(type) {
	case iface:
		if x.t == nil {
			return nil
		}
		return toHost(fr, x.v)
	case bool, string, int, int8, int16, int32, int64, uint, uint8, uint16, uint32, uint64, float32, float64:
		return x
	case []value:
		out := make([]interface{}, len(x))
		for i, e := range x {
			out[i] = toHost(fr, e)
		}
		return out
	case *omap:
		out := map[string]interface{}{}
		for _, e := range x.liveEntries(nil) {
			k, ok := e.k.(string)
			if !ok {
				fr.i.w.unsupported("host conversion of a map with non-string or symbolic keys")
			}
			out[k] = toHost(fr, e.v)
		}
		return out
	case *value:
		if x == nil {
			return nil
		}
		return toHost(fr, *x)
	}
	fr.i.w.unsupported(fmt.Sprintf("host conversion of %T (symbolic or non-generic value)", v))
	return nil
}

func ext۰json۰Marshal(fr *frame, args []value) value {
	h := toHost(fr, args[0])
	b, err := jsonMarshal(h)
	if err != nil {
		return tuple{[]value(nil), mkError(fr, err.Error())}
	}
	out := make([]value, len(b))
	for i, c := range b {
		out[i] = c
	}
	return tuple{out, iface{}}
}

func jsonMarshal(v interface{}) ([]byte, error) { return json.Marshal(v) }
