package interp

// Concrete evaluation of terms under an assignment of the input variables.
// Used as a counterexample cache: the last model returned by the solver
// satisfies the path condition, so evaluating a branch condition under it
// tells which side is certainly feasible without a query.

import "math"

type evalCtx struct {
	vals map[*Term]uint64 // input variable -> bits (missing = 0)
	memo map[*Term]uint64
	ok   bool
}

func (e *evalCtx) eval(t *Term) uint64 {
	switch t.op {
	case OpConst:
		return t.k
	case OpVar:
		return e.vals[t]
	}
	if e.memo == nil {
		return e.eval1(t)
	}
	if v, ok := e.memo[t]; ok {
		return v
	}
	v := e.eval1(t)
	e.memo[t] = v
	return v
}

func b2u(b bool) uint64 {
	if b {
		return 1
	}
	return 0
}

func (e *evalCtx) fl(t *Term) float64 {
	v := e.eval(t)
	if t.sort == SF32 {
		return float64(math.Float32frombits(uint32(v)))
	}
	return math.Float64frombits(v)
}

func flbits(s Sort, f float64) uint64 {
	if s == SF32 {
		return uint64(math.Float32bits(float32(f)))
	}
	return math.Float64bits(f)
}

func (e *evalCtx) eval1(t *Term) uint64 {
	a := t.a
	switch t.op {
	case OpNot:
		return 1 - e.eval(a[0])
	case OpAnd:
		if e.eval(a[0]) == 0 {
			return 0
		}
		return e.eval(a[1])
	case OpOr:
		if e.eval(a[0]) != 0 {
			return 1
		}
		return e.eval(a[1])
	case OpEq:
		return b2u(e.eval(a[0]) == e.eval(a[1]))
	case OpIte:
		if e.eval(a[0]) != 0 {
			return e.eval(a[1])
		}
		return e.eval(a[2])
	case OpBVAdd, OpBVSub, OpBVMul, OpBVUDiv, OpBVSDiv, OpBVURem, OpBVSRem, OpBVAnd, OpBVOr, OpBVXor, OpBVShl, OpBVLShr, OpBVAShr:
		r, _ := foldBV(t.op, t.sort.width(), e.eval(a[0]), e.eval(a[1]))
		return r
	case OpBVNot:
		return ^e.eval(a[0]) & mask(t.sort.width())
	case OpBVNeg:
		return -e.eval(a[0]) & mask(t.sort.width())
	case OpBVULt:
		return b2u(e.eval(a[0]) < e.eval(a[1]))
	case OpBVULe:
		return b2u(e.eval(a[0]) <= e.eval(a[1]))
	case OpBVSLt:
		w := a[0].sort.width()
		return b2u(sext(e.eval(a[0]), w) < sext(e.eval(a[1]), w))
	case OpBVSLe:
		w := a[0].sort.width()
		return b2u(sext(e.eval(a[0]), w) <= sext(e.eval(a[1]), w))
	case OpExtract:
		return (e.eval(a[0]) >> uint(t.p2)) & mask(uint(t.p1-t.p2+1))
	case OpZeroExt:
		return e.eval(a[0])
	case OpSignExt:
		return uint64(sext(e.eval(a[0]), a[0].sort.width())) & mask(t.sort.width())
	case OpFAdd, OpFSub, OpFMul, OpFDiv:
		x, y := e.fl(a[0]), e.fl(a[1])
		if t.sort == SF32 {
			x32, y32 := float32(x), float32(y)
			var r float32
			switch t.op {
			case OpFAdd:
				r = x32 + y32
			case OpFSub:
				r = x32 - y32
			case OpFMul:
				r = x32 * y32
			default:
				r = x32 / y32
			}
			return uint64(math.Float32bits(r))
		}
		var r float64
		switch t.op {
		case OpFAdd:
			r = x + y
		case OpFSub:
			r = x - y
		case OpFMul:
			r = x * y
		default:
			r = x / y
		}
		return math.Float64bits(r)
	case OpFNeg:
		v := e.eval(a[0])
		if t.sort == SF32 {
			return v ^ (1 << 31)
		}
		return v ^ (1 << 63)
	case OpFLt:
		return b2u(e.fl(a[0]) < e.fl(a[1]))
	case OpFLe:
		return b2u(e.fl(a[0]) <= e.fl(a[1]))
	case OpFEq:
		return b2u(e.fl(a[0]) == e.fl(a[1]))
	case OpFIsNaN:
		return b2u(math.IsNaN(e.fl(a[0])))
	case OpFIsInf:
		return b2u(math.IsInf(e.fl(a[0]), 0))
	case OpFToF:
		return flbits(t.sort, e.fl(a[0]))
	case OpSToF:
		v := sext(e.eval(a[0]), a[0].sort.width())
		if t.sort == SF32 {
			return uint64(math.Float32bits(float32(v)))
		}
		return math.Float64bits(float64(v))
	case OpUToF:
		v := e.eval(a[0])
		if t.sort == SF32 {
			return uint64(math.Float32bits(float32(v)))
		}
		return math.Float64bits(float64(v))
	case OpFToSBV:
		f := e.fl(a[0])
		w := t.sort.width()
		lim := math.Ldexp(1, int(w)-1)
		if f != f || f < -lim || f >= lim {
			// unspecified in SMT-LIB: the engine only builds it under a range guard
			return 0
		}
		return uint64(int64(f)) & mask(w)
	case OpFToUBV:
		f := e.fl(a[0])
		if f != f || f < 0 || f >= math.Ldexp(1, int(t.sort.width())) {
			return 0
		}
		return uint64(f) & mask(t.sort.width())
	case OpFFromBits:
		return e.eval(a[0])
	}
	e.ok = false
	return 0
}
