package verif

// Native confirmation of write-monitor findings: a generic deep fingerprint of
// everything reachable from the read-only roots (including unexported fields,
// through reflect + unsafe, so no identifier of go-ucfg is named), taken at
// ReadOnlyBegin and compared at ReadOnlyEnd.

import (
	"fmt"
	"hash/fnv"
	"reflect"
	"sort"
	"unsafe"
)

var (
	roLabel string
	roRoots []interface{}
	roPrint uint64
)

func ReadOnlyBegin(label string, roots ...interface{}) {
	roLabel, roRoots = label, roots
	roPrint = fingerprintAll(roots)
}

func ReadOnlyEnd() {
	if roRoots == nil {
		return
	}
	if now := fingerprintAll(roRoots); now != roPrint {
		Failures = append(Failures, "readonly:"+roLabel)
		fmt.Printf("WRITE readonly:%s: the object graph reachable from the read-only roots changed\n", roLabel)
	}
	roRoots = nil
}

type fp struct {
	seen map[unsafe.Pointer]int
}

func fingerprintAll(roots []interface{}) uint64 {
	f := &fp{seen: map[unsafe.Pointer]int{}}
	h := fnv.New64a()
	for _, r := range roots {
		fmt.Fprintf(h, "%x;", f.value(reflect.ValueOf(r), 0))
	}
	return h.Sum64()
}

func (f *fp) value(v reflect.Value, depth int) uint64 {
	h := fnv.New64a()
	if !v.IsValid() {
		return 1
	}
	if depth > 200 {
		return 2
	}
	fmt.Fprintf(h, "%d:", v.Kind())
	switch v.Kind() {
	case reflect.Bool:
		fmt.Fprint(h, v.Bool())
	case reflect.Int, reflect.Int8, reflect.Int16, reflect.Int32, reflect.Int64:
		fmt.Fprint(h, v.Int())
	case reflect.Uint, reflect.Uint8, reflect.Uint16, reflect.Uint32, reflect.Uint64, reflect.Uintptr:
		fmt.Fprint(h, v.Uint())
	case reflect.Float32, reflect.Float64:
		fmt.Fprint(h, v.Float())
	case reflect.String:
		fmt.Fprint(h, v.String())
	case reflect.Ptr:
		if v.IsNil() {
			fmt.Fprint(h, "nil")
			break
		}
		p := unsafe.Pointer(v.Pointer())
		if id, ok := f.seen[p]; ok {
			fmt.Fprintf(h, "ref%d", id)
			break
		}
		f.seen[p] = len(f.seen)
		fmt.Fprintf(h, "%x", f.value(v.Elem(), depth+1))
	case reflect.Interface:
		if v.IsNil() {
			fmt.Fprint(h, "nil")
			break
		}
		fmt.Fprintf(h, "%s:%x", v.Elem().Type(), f.value(v.Elem(), depth+1))
	case reflect.Struct:
		// make unexported fields readable
		if !v.CanAddr() {
			c := reflect.New(v.Type()).Elem()
			c.Set(v)
			v = c
		}
		for i := 0; i < v.NumField(); i++ {
			fv := v.Field(i)
			fv = reflect.NewAt(fv.Type(), unsafe.Pointer(fv.UnsafeAddr())).Elem()
			fmt.Fprintf(h, "%x,", f.value(fv, depth+1))
		}
	case reflect.Slice:
		if v.IsNil() {
			fmt.Fprint(h, "nil")
			break
		}
		fmt.Fprintf(h, "len%d:", v.Len())
		for i := 0; i < v.Len(); i++ {
			fmt.Fprintf(h, "%x,", f.value(v.Index(i), depth+1))
		}
	case reflect.Array:
		for i := 0; i < v.Len(); i++ {
			fmt.Fprintf(h, "%x,", f.value(v.Index(i), depth+1))
		}
	case reflect.Map:
		if v.IsNil() {
			fmt.Fprint(h, "nil")
			break
		}
		var es []string
		it := v.MapRange()
		for it.Next() {
			es = append(es, fmt.Sprintf("%x=%x", f.value(it.Key(), depth+1), f.value(it.Value(), depth+1)))
		}
		sort.Strings(es)
		fmt.Fprint(h, es)
	case reflect.Func, reflect.Chan, reflect.UnsafePointer:
		fmt.Fprint(h, v.IsNil())
	}
	return h.Sum64()
}
