package verif

// Native confirmation of write-monitor findings: a generic deep fingerprint of
// everything reachable from the read-only roots (including unexported fields,
// through reflect + unsafe, so no identifier of go-ucfg is named), taken at
// ReadOnlyBegin and compared at ReadOnlyEnd.

import (
	"fmt"
	"hash/fnv"
	"reflect"
	"sort"
	"unsafe"
)

var (
	roLabel string
	roRoots []interface{}
	roPrint uint64
)

func ReadOnlyBegin(label string, roots ...interface{}) {
	roLabel, roRoots = label, roots
	roPrint = fingerprintAll(roots)
}

func ReadOnlyEnd() {
	if roRoots == nil {
		return
	}
	if now := fingerprintAll(roRoots); now != roPrint {
		Failures = append(Failures, "readonly:"+roLabel)
		fmt.Printf("WRITE readonly:%s: the object graph reachable from the read-only roots changed\n", roLabel)
	}
	roRoots = nil
}

// Pointers already met are written canonically, independent of the (random) order in which map
// entries are visited: a pointer that is still being traversed (a cycle, e.g. the parent link of a
// child) as the distance up the traversal stack, a finished one by its own fingerprint.
type fpNode struct {
	onStack bool
	depth   int
	hash    uint64
}

type fp struct {
	seen map[unsafe.Pointer]*fpNode
}

func fingerprintAll(roots []interface{}) uint64 {
	f := &fp{seen: map[unsafe.Pointer]*fpNode{}}
	h := fnv.New64a()
	for _, r := range roots {
		fmt.Fprintf(h, "%x;", f.value(reflect.ValueOf(r), 0))
	}
	return h.Sum64()
}

func (f *fp) value(v reflect.Value, depth int) uint64 {
	h := fnv.New64a()
	if !v.IsValid() {
		return 1
	}
	if depth > 200 {
		return 2
	}
	fmt.Fprintf(h, "%d:", v.Kind())
	switch v.Kind() {
	case reflect.Bool:
		fmt.Fprint(h, v.Bool())
	case reflect.Int, reflect.Int8, reflect.Int16, reflect.Int32, reflect.Int64:
		fmt.Fprint(h, v.Int())
	case reflect.Uint, reflect.Uint8, reflect.Uint16, reflect.Uint32, reflect.Uint64, reflect.Uintptr:
		fmt.Fprint(h, v.Uint())
	case reflect.Float32, reflect.Float64:
		fmt.Fprint(h, v.Float())
	case reflect.String:
		fmt.Fprint(h, v.String())
	case reflect.Ptr:
		if v.IsNil() {
			fmt.Fprint(h, "nil")
			break
		}
		p := unsafe.Pointer(v.Pointer())
		if n, ok := f.seen[p]; ok {
			if n.onStack {
				fmt.Fprintf(h, "up%d", depth-n.depth)
			} else {
				fmt.Fprintf(h, "same%x", n.hash)
			}
			break
		}
		n := &fpNode{onStack: true, depth: depth}
		f.seen[p] = n
		n.hash = f.value(v.Elem(), depth+1)
		n.onStack = false
		fmt.Fprintf(h, "%x", n.hash)
	case reflect.Interface:
		if v.IsNil() {
			fmt.Fprint(h, "nil")
			break
		}
		fmt.Fprintf(h, "%s:%x", v.Elem().Type(), f.value(v.Elem(), depth+1))
	case reflect.Struct:
		// make unexported fields readable
		if !v.CanAddr() {
			c := reflect.New(v.Type()).Elem()
			c.Set(v)
			v = c
		}
		for i := 0; i < v.NumField(); i++ {
			fv := v.Field(i)
			fv = reflect.NewAt(fv.Type(), unsafe.Pointer(fv.UnsafeAddr())).Elem()
			fmt.Fprintf(h, "%x,", f.value(fv, depth+1))
		}
	case reflect.Slice:
		if v.IsNil() {
			fmt.Fprint(h, "nil")
			break
		}
		fmt.Fprintf(h, "len%d:", v.Len())
		for i := 0; i < v.Len(); i++ {
			fmt.Fprintf(h, "%x,", f.value(v.Index(i), depth+1))
		}
	case reflect.Array:
		for i := 0; i < v.Len(); i++ {
			fmt.Fprintf(h, "%x,", f.value(v.Index(i), depth+1))
		}
	case reflect.Map:
		if v.IsNil() {
			fmt.Fprint(h, "nil")
			break
		}
		var es []string
		it := v.MapRange()
		for it.Next() {
			es = append(es, fmt.Sprintf("%x=%x", f.value(it.Key(), depth+1), f.value(it.Value(), depth+1)))
		}
		sort.Strings(es)
		fmt.Fprint(h, es)
	case reflect.Func, reflect.Chan, reflect.UnsafePointer:
		fmt.Fprint(h, v.IsNil())
	}
	return h.Sum64()
}

// ---- Disjoint: no mutable storage is reachable from both a and b ----

type shareID struct {
	p    unsafe.Pointer
	kind byte // 'p' pointer target, 's' slice backing array (its end), 'm' map
}

type shareWalk struct {
	ids    map[shareID]string
	exempt map[string]bool
}

func (s *shareWalk) walk(v reflect.Value, path string, depth int) {
	if !v.IsValid() || depth > 400 {
		return
	}
	if s.exempt[v.Type().String()] {
		return
	}
	switch v.Kind() {
	case reflect.Ptr:
		if v.IsNil() {
			return
		}
		if v.Type().Elem().Size() == 0 {
			return // all zero-size allocations share one address
		}
		p := shareID{unsafe.Pointer(v.Pointer()), 'p'}
		if _, seen := s.ids[p]; seen {
			return
		}
		s.ids[p] = path
		s.walk(v.Elem(), path+"->", depth+1)
	case reflect.Interface:
		if v.IsNil() {
			return
		}
		s.walk(v.Elem(), path+"("+v.Elem().Type().String()+")", depth+1)
	case reflect.Struct:
		if v.Type().PkgPath() == "regexp" || v.Type().PkgPath() == "reflect" || v.Type().PkgPath() == "sync" {
			return
		}
		if !v.CanAddr() {
			c := reflect.New(v.Type()).Elem()
			c.Set(v)
			v = c
		}
		for i := 0; i < v.NumField(); i++ {
			fv := v.Field(i)
			fv = reflect.NewAt(fv.Type(), unsafe.Pointer(fv.UnsafeAddr())).Elem()
			s.walk(fv, path+"."+v.Type().Field(i).Name, depth+1)
		}
	case reflect.Slice:
		if v.IsNil() || v.Cap() == 0 {
			return
		}
		// identity: the end of the backing array (the same for every slice of it)
		end := shareID{unsafe.Pointer(v.Pointer() + uintptr(v.Cap())*v.Type().Elem().Size()), 's'}
		if _, seen := s.ids[end]; !seen && v.Type().Elem().Size() > 0 {
			s.ids[end] = path + "[]"
		}
		for i := 0; i < v.Len(); i++ {
			s.walk(v.Index(i), fmt.Sprintf("%s[%d]", path, i), depth+1)
		}
	case reflect.Array:
		for i := 0; i < v.Len(); i++ {
			s.walk(v.Index(i), fmt.Sprintf("%s[%d]", path, i), depth+1)
		}
	case reflect.Map:
		if v.IsNil() {
			return
		}
		p := shareID{unsafe.Pointer(v.Pointer()), 'm'}
		if _, seen := s.ids[p]; seen {
			return
		}
		s.ids[p] = path + "{}"
		it := v.MapRange()
		for it.Next() {
			s.walk(it.Key(), path+"{key}", depth+1)
			s.walk(it.Value(), path+"{}", depth+1)
		}
	}
}

// Disjoint reports whether no mutable storage (pointer target, slice backing array, map) is
// reachable from both a and b. Values whose type (as printed by reflect, e.g. "*ucfg.Meta") is
// listed in sharedOK are immutable by design and not followed.
func Disjoint(label string, a, b interface{}, sharedOK ...string) bool {
	ex := map[string]bool{}
	for _, e := range sharedOK {
		ex[e] = true
	}
	sa := &shareWalk{ids: map[shareID]string{}, exempt: ex}
	sb := &shareWalk{ids: map[shareID]string{}, exempt: ex}
	sa.walk(reflect.ValueOf(a), "root", 0)
	sb.walk(reflect.ValueOf(b), "root", 0)
	shared := ""
	for p, pa := range sa.ids {
		if pb, ok := sb.ids[p]; ok && (shared == "" || pa < shared) {
			shared = pa + " == " + pb
		}
	}
	if shared != "" {
		Failures = append(Failures, "share:"+label)
		fmt.Printf("SHARE %s: mutable storage reachable from both sides: %s\n", label, shared)
		return false
	}
	return true
}
