// Package verif is the harness-side API of gosym.
//
// Inside the engine every function of this package is an intrinsic (inputs
// are symbolic, Assert is a solver query, monitors observe the interpreted
// heap). The bodies below are the NATIVE semantics used for replay: inputs
// come from a model file (env VERIF_MODEL, JSON {"values": {name: text}}),
// a failed Assert or a panic inside NoPanic terminates the process with
// exit code 3 after printing a line that names the label.
package verif

import (
	"encoding/json"
	"fmt"
	"math"
	"os"
	"reflect"
	"runtime"
	"strconv"
	"strings"
)

type model struct {
	Harness string            `json:"harness"`
	Values  map[string]string `json:"values"`
}

var (
	mdl    model
	loaded bool
	names  = map[string]int{}
	// Failures collects replay outcomes (label of failed assertions / panics).
	Failures []string
	tier     int
)

func load() {
	if loaded {
		return
	}
	loaded = true
	mdl.Values = map[string]string{}
	if p := os.Getenv("VERIF_MODEL"); p != "" {
		b, err := os.ReadFile(p)
		if err != nil {
			fmt.Println("REPLAY-ERROR cannot read model:", err)
			os.Exit(4)
		}
		if err := json.Unmarshal(b, &mdl); err != nil {
			fmt.Println("REPLAY-ERROR cannot parse model:", err)
			os.Exit(4)
		}
	}
	if t := os.Getenv("VERIF_TIER"); t == "thorough" || t == "1" {
		tier = 1
	}
}

// Reset clears per-run state (used by the replay driver between harnesses).
func Reset() { names = map[string]int{}; Failures = nil }

func unique(name string) string {
	if n, ok := names[name]; ok {
		names[name] = n + 1
		return fmt.Sprintf("%s#%d", name, n+1)
	}
	names[name] = 1
	return name
}

func raw(name string) (string, bool) {
	load()
	s, ok := mdl.Values[unique(name)]
	return s, ok
}

func geti(name string) int64 {
	s, ok := raw(name)
	if !ok {
		return 0
	}
	v, _ := strconv.ParseInt(s, 10, 64)
	return v
}

func getu(name string) uint64 {
	s, ok := raw(name)
	if !ok {
		return 0
	}
	v, _ := strconv.ParseUint(s, 10, 64)
	return v
}

func Bool(name string) bool {
	s, _ := raw(name)
	return s == "true"
}
func Int(name string) int       { return int(geti(name)) }
func Int8(name string) int8     { return int8(geti(name)) }
func Int16(name string) int16   { return int16(geti(name)) }
func Int32(name string) int32   { return int32(geti(name)) }
func Int64(name string) int64   { return geti(name) }
func Uint(name string) uint     { return uint(getu(name)) }
func Uint8(name string) uint8   { return uint8(getu(name)) }
func Uint16(name string) uint16 { return uint16(getu(name)) }
func Uint32(name string) uint32 { return uint32(getu(name)) }
func Uint64(name string) uint64 { return getu(name) }
func Byte(name string) byte     { return byte(getu(name)) }

func Float64(name string) float64 {
	s, ok := raw(name)
	if !ok {
		return 0
	}
	b, _ := strconv.ParseUint(strings.TrimPrefix(s, "0x"), 16, 64)
	return math.Float64frombits(b)
}

func Float32(name string) float32 {
	s, ok := raw(name)
	if !ok {
		return 0
	}
	b, _ := strconv.ParseUint(strings.TrimPrefix(s, "0x"), 16, 64)
	return math.Float32frombits(uint32(b))
}

// Bytes returns a string of n inputs named name[0] .. name[n-1].
func Bytes(name string, n int) string {
	b := make([]byte, n)
	for i := range b {
		b[i] = Byte(fmt.Sprintf("%s[%d]", name, i))
	}
	return string(b)
}

// Choice returns a value in [0,n): shapes, operations, policies, positions.
func Choice(name string, n int) int {
	v := int(geti(name))
	if v < 0 || v >= n {
		return 0
	}
	return v
}

// Assume constrains the path; natively a false assumption means the model
// does not belong to this harness run.
func Assume(c bool) {
	if !c {
		fmt.Println("REPLAY-ASSUME-FALSE")
		os.Exit(5)
	}
}

// Assert states the property.
func Assert(c bool, label string) {
	if !c {
		Failures = append(Failures, label)
		fmt.Printf("ASSERT-FAILED %s\n", label)
	}
}

// Reach is a vacuity guard (engine); natively it records the label.
func Reach(label string) { fmt.Printf("REACHED %s\n", label) }

// Tier is 0 for quick, 1 for thorough.
func Tier() int { load(); return tier }

// Symbolic reports whether inputs are symbolic (engine) or concrete (replay).
func Symbolic() bool { return false }

// NoPanic runs f; a panic escaping f is a finding. Returns false if f panicked.
func NoPanic(label string, f func()) (ok bool) {
	defer func() {
		if r := recover(); r != nil {
			Failures = append(Failures, label)
			fmt.Printf("PANIC %s: %v\n", label, r)
			ok = false
		}
	}()
	f()
	return true
}

// AllocLimitSlots is the active allocation limit (0 = monitor off).
var AllocLimitSlots int
var allocBase uint64

// AllocLimit(n>0) starts monitoring allocation by go-ucfg code against a limit
// of n list slots; AllocLimit(0) ends the monitored region. Natively only gross
// violations are observable (bytes allocated in the region).
func AllocLimit(n int) {
	var ms runtime.MemStats
	runtime.ReadMemStats(&ms)
	if AllocLimitSlots > 0 {
		CheckAlloc(ms.TotalAlloc)
	}
	AllocLimitSlots = n
	allocBase = ms.TotalAlloc
}

// CheckAlloc compares the bytes allocated since the region began with the limit.
func CheckAlloc(now uint64) {
	if lim := AllocLimitSlots; lim > 0 {
		if grown := now - allocBase; grown > uint64(lim)*16*4+(8<<20) {
			Failures = append(Failures, "alloc-limit")
			fmt.Printf("ALLOC alloc-limit: %d bytes allocated in a region limited to %d slots\n", grown, lim)
		}
	}
}
func PermuteMaps(on bool)                            {}

// ScheduleAll(true): from now on every scheduling choice at a channel operation
// (which ready goroutine continues) is a decision of the engine, so all
// interleavings of the communication events are explored.
func ScheduleAll(on bool) {}

// ScheduleEager(true): deterministic policy "yield to another goroutine at every
// channel operation" (the opposite extreme of the default run-until-blocked).
func ScheduleEager(on bool) {}

// PermuteOneMap: exactly one of the map iterations that follow (inside go-ucfg)
// is enumerated in every non-canonical order; PermuteMaps(false) ends the mode.
func PermuteOneMap() {}
// DecoderResult registers the contract result of a decoder for the engine (the
// real decoder runs natively, so this is a no-op here).
func DecoderResult(decoder string, v interface{}) {}

// TextBytes is []byte(text) (see the engine intrinsic for opaque text).
func TextBytes(text string) []byte { return []byte(text) }

// VirtualFile makes content available under name to ReadFile: natively a real
// file below the temp directory; the returned path is what the loader must be given.
func VirtualFile(name string, content string) string {
	p := os.TempDir() + "/" + strings.ReplaceAll(name, "/", "_")
	if err := os.WriteFile(p, []byte(content), 0o600); err != nil {
		fmt.Println("REPLAY-ERROR cannot write virtual file:", err)
		os.Exit(4)
	}
	return p
}

func Note(key string, v interface{})                 { fmt.Printf("NOTE %s = %#v\n", key, v) }
func Taint()                                         {}
func Concretize(v interface{}) interface{}           { return v }
func SymStr(s string) bool                           { return false }
func IsSym(v interface{}) bool                       { return false }
func IsNaN(f float64) bool                           { return f != f }

// Eq is deep equality with nil and empty collections considered equal.
func Eq(a, b interface{}) bool { return looseEq(reflect.ValueOf(a), reflect.ValueOf(b)) }

func emptyish(v reflect.Value) bool {
	if !v.IsValid() {
		return true
	}
	switch v.Kind() {
	case reflect.Slice, reflect.Map:
		return v.Len() == 0
	case reflect.Interface, reflect.Ptr:
		return v.IsNil()
	}
	return false
}

func looseEq(a, b reflect.Value) bool {
	if !a.IsValid() || !b.IsValid() {
		return emptyish(a) && emptyish(b)
	}
	if a.Kind() == reflect.Interface || b.Kind() == reflect.Interface {
		if a.Kind() == reflect.Interface {
			if a.IsNil() {
				return emptyish(b)
			}
			a = a.Elem()
		}
		if b.Kind() == reflect.Interface {
			if b.IsNil() {
				return emptyish(a)
			}
			b = b.Elem()
		}
		return looseEq(a, b)
	}
	if a.Type() != b.Type() {
		return false
	}
	switch a.Kind() {
	case reflect.Slice:
		if a.Len() != b.Len() {
			return false
		}
		for i := 0; i < a.Len(); i++ {
			if !looseEq(a.Index(i), b.Index(i)) {
				return false
			}
		}
		return true
	case reflect.Array:
		for i := 0; i < a.Len(); i++ {
			if !looseEq(a.Index(i), b.Index(i)) {
				return false
			}
		}
		return true
	case reflect.Map:
		if a.Len() != b.Len() {
			return false
		}
		for _, k := range a.MapKeys() {
			bv := b.MapIndex(k)
			if !bv.IsValid() || !looseEq(a.MapIndex(k), bv) {
				return false
			}
		}
		return true
	case reflect.Struct:
		for i := 0; i < a.NumField(); i++ {
			if !looseEq(a.Field(i), b.Field(i)) {
				return false
			}
		}
		return true
	case reflect.Ptr:
		if a.IsNil() || b.IsNil() {
			return a.IsNil() == b.IsNil()
		}
		if a.Pointer() == b.Pointer() {
			return true
		}
		return looseEq(a.Elem(), b.Elem())
	case reflect.Float32, reflect.Float64:
		return a.Float() == b.Float()
	case reflect.Func:
		return a.IsNil() && b.IsNil()
	}
	if a.CanInterface() && b.CanInterface() {
		return a.Interface() == b.Interface()
	}
	return reflect.DeepEqual(a, b)
}

func And(a, b bool) bool     { return a && b }
func Or(a, b bool) bool      { return a || b }
func Implies(a, b bool) bool { return !a || b }
func Not(a bool) bool        { return !a }

func IteInt64(c bool, a, b int64) int64 {
	if c {
		return a
	}
	return b
}
func IteUint64(c bool, a, b uint64) uint64 {
	if c {
		return a
	}
	return b
}
func IteFloat64(c bool, a, b float64) float64 {
	if c {
		return a
	}
	return b
}
func IteBool(c bool, a, b bool) bool {
	if c {
		return a
	}
	return b
}
func IteInt(c bool, a, b int) int {
	if c {
		return a
	}
	return b
}
