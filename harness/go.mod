module vharness

go 1.21

require (
	github.com/elastic/go-ucfg v0.0.0
	gopkg.in/hjson/hjson-go.v3 v3.0.1
	gopkg.in/yaml.v2 v2.2.8
)

replace github.com/elastic/go-ucfg => /repo
