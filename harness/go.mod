module vharness

go 1.21

require github.com/elastic/go-ucfg v0.0.0

require gopkg.in/yaml.v2 v2.2.8 // indirect

replace github.com/elastic/go-ucfg => /repo
