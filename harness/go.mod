module vharness

go 1.21

require github.com/elastic/go-ucfg v0.0.0

replace github.com/elastic/go-ucfg => /repo
