package h

// C18 YAML, JSON and HJSON front-ends agree and record where settings came from.
//
// The three decoders cannot be encoded. What is decided here is go-ucfg's
// side: the front-end functions run (interpreted) on the value each decoder
// produces for the document according to its contract (yaml.v2: int / float64
// / string / bool / nil / []interface{} / map[interface{}]interface{};
// encoding/json and hjson: float64 for every number, map[string]interface{}),
// built from the same symbolic document tree. The contracts are checked
// natively against the real decoders (Native_decoder_contracts); native replay
// uses the real decoders on the JSON text of the model.

import (
	"strconv"
	"strings"

	ucfg "github.com/elastic/go-ucfg"
	"github.com/elastic/go-ucfg/hjson"
	"github.com/elastic/go-ucfg/json"
	"github.com/elastic/go-ucfg/yaml"

	"vharness/verif"
)

// document tree: kinds null, bool, integer (|n| < 2^53, so that every decoder keeps it exact),
// float (from a table), string, list, object
type doc struct {
	kind int
	b    bool
	i    int64
	f    float64
	ftxt string
	s    string
	list []*doc
	keys []string
	obj  []*doc
}

var c18Floats = []struct {
	txt string
	v   float64
}{{"1.5", 1.5}, {"-0.25", -0.25}, {"1e3", 1000}, {"2.5e-3", 0.0025}}

var c18Strings = []string{"", "plain", "a.b", "üñí q\"uote", "123", "${x}", "with space", "true", "null", "[1]", "{k: v}", "a,b", "back\\slash"}

func genDoc(name string, depth int) *doc {
	nStr, nFlt, maxLen := 5, 2, 1
	if verif.Tier() > 0 {
		nStr, nFlt, maxLen = len(c18Strings), len(c18Floats), 2
	}
	kinds := 5
	if depth > 0 {
		kinds = 7
	}
	d := &doc{kind: verif.Choice(name+".kind", kinds)}
	switch d.kind {
	case 1:
		d.b = verif.Bool(name + ".b")
	case 2:
		if verif.Tier() > 0 {
			d.i = verif.Int64(name + ".i")
			verif.Assume(verif.And(d.i > -9007199254740992, d.i < 9007199254740992))
		} else {
			// quick: boundary table (the symbolic integer costs one floating-point query per comparison)
			d.i = []int64{0, 1, -7, 255, 65536, 1000000, 9007199254740991, -9007199254740991}[verif.Choice(name+".i", 8)]
		}
	case 3:
		f := c18Floats[verif.Choice(name+".f", nFlt)]
		d.f, d.ftxt = f.v, f.txt
	case 4:
		d.s = c18Strings[verif.Choice(name+".s", nStr)]
	case 5:
		n := verif.Choice(name+".len", maxLen+1)
		for i := 0; i < n; i++ {
			d.list = append(d.list, genDoc(name+"."+itoa(i), depth-1))
		}
	case 6:
		n := verif.Choice(name+".len", maxLen+1)
		for i := 0; i < n; i++ {
			d.keys = append(d.keys, []string{"k", "other key"}[i])
			d.obj = append(d.obj, genDoc(name+"."+itoa(i), depth-1))
		}
	}
	return d
}

// yamlShape / jsonShape: what the decoders produce.
func (d *doc) yamlShape() interface{} {
	switch d.kind {
	case 0:
		return nil
	case 1:
		return d.b
	case 2:
		return int(d.i)
	case 3:
		return d.f
	case 4:
		return d.s
	case 5:
		l := []interface{}{}
		for _, e := range d.list {
			l = append(l, e.yamlShape())
		}
		return l
	}
	m := map[interface{}]interface{}{}
	for i, k := range d.keys {
		m[k] = d.obj[i].yamlShape()
	}
	return m
}

func (d *doc) jsonShape() interface{} {
	switch d.kind {
	case 0:
		return nil
	case 1:
		return d.b
	case 2:
		return float64(d.i)
	case 3:
		return d.f
	case 4:
		return d.s
	case 5:
		l := []interface{}{}
		for _, e := range d.list {
			l = append(l, e.jsonShape())
		}
		return l
	}
	m := map[string]interface{}{}
	for i, k := range d.keys {
		m[k] = d.obj[i].jsonShape()
	}
	return m
}

// text renders the document as JSON (valid YAML flow syntax and HJSON as well).
// Plain concatenation: the rendering of a symbolic integer is opaque text in the engine.
func (d *doc) text() string {
	switch d.kind {
	case 0:
		return "null"
	case 1:
		if d.b {
			return "true"
		}
		return "false"
	case 2:
		return strconv.FormatInt(d.i, 10)
	case 3:
		return d.ftxt
	case 4:
		return strconv.Quote(d.s)
	case 5:
		out := "["
		for i, e := range d.list {
			if i > 0 {
				out += ", "
			}
			out += e.text()
		}
		return out + "]"
	}
	out := "{"
	for i, e := range d.obj {
		if i > 0 {
			out += ", "
		}
		out += strconv.Quote(d.keys[i]) + ": " + e.text()
	}
	return out + "}"
}

// eqNumTree compares two generic trees with numbers compared by value.
func eqNumTree(a, b interface{}) bool {
	num := func(v interface{}) (float64, bool) {
		switch x := v.(type) {
		case int64:
			return float64(x), true
		case uint64:
			return float64(x), true
		case float64:
			return x, true
		}
		return 0, false
	}
	if fa, ok := num(a); ok {
		fb, ok := num(b)
		if !ok {
			return false
		}
		return fa == fb
	}
	switch x := a.(type) {
	case nil:
		return isEmptyGo(b)
	case bool:
		y, ok := b.(bool)
		if !ok {
			return false
		}
		return x == y
	case string:
		y, ok := b.(string)
		return ok && x == y
	case []interface{}:
		y, ok := b.([]interface{})
		if !ok {
			return len(x) == 0 && isEmptyGo(b)
		}
		if len(x) != len(y) {
			return false
		}
		res := true
		for i := range x {
			res = verif.And(res, eqNumTree(x[i], y[i]))
		}
		return res
	case map[string]interface{}:
		y, ok := b.(map[string]interface{})
		if !ok {
			return isEmptyGo(a) && isEmptyGo(b)
		}
		res := true
		for k, v := range x {
			res = verif.And(res, eqNumTree(v, y[k]))
		}
		for k, v := range y {
			if _, ok := x[k]; !ok && !isEmptyGo(v) {
				return false
			}
		}
		return res
	}
	return false
}

type c18Typed struct {
	N  int64    `config:"n"`
	F  float64  `config:"f"`
	S  string   `config:"s"`
	B  bool     `config:"b"`
	L  []uint16 `config:"l"`
	NF float64  `config:"n2"`
}

// H_C18_agree: the same document through the three front-ends unpacks to the same data.
func H_C18_agree() {
	// quick: two varying members; thorough: one member with the full tables and longer containers
	root := &doc{kind: 6, keys: []string{"a", "b"}}
	root.obj = append(root.obj, genDoc("D.a", 1))
	if verif.Tier() > 0 {
		root.obj = append(root.obj, &doc{kind: 2, i: 7})
	} else {
		root.obj = append(root.obj, genDoc("D.b", 1))
	}
	text := verif.TextBytes(root.text())
	var opts []ucfg.Option
	switch verif.Choice("opts", 3) {
	case 1:
		opts = []ucfg.Option{ucfg.PathSep(".")}
	case 2:
		opts = []ucfg.Option{ucfg.PathSep("."), ucfg.VarExp}
	}
	verif.DecoderResult("yaml", root.yamlShape())
	verif.DecoderResult("json", root.jsonShape())
	verif.DecoderResult("hjson", root.jsonShape())
	cy, ey := yaml.NewConfig(text, opts...)
	cj, ej := json.NewConfig(text, opts...)
	ch, eh := hjson.NewConfig(text, opts...)
	verif.Assert((ey == nil) == (ej == nil) && (ej == nil) == (eh == nil), "C18/the three front-ends accept or reject alike")
	if ey != nil || ej != nil || eh != nil {
		verif.Reach("rejected alike")
		return
	}
	var my, mj, mh map[string]interface{}
	uy, uj, uh := cy.Unpack(&my, opts...), cj.Unpack(&mj, opts...), ch.Unpack(&mh, opts...)
	verif.Assert((uy == nil) == (uj == nil) && (uj == nil) == (uh == nil), "C18/generic unpack succeeds or fails alike")
	if uy != nil || uj != nil || uh != nil {
		return
	}
	verif.Reach("generic data compared")
	verif.Assert(eqNumTree(my, mj), "C18/yaml and json unpack to the same data")
	verif.Assert(eqNumTree(mj, mh), "C18/json and hjson unpack to the same data")
}

// H_C18_typed: typed targets and *WithFile loaders.
func H_C18_typed() {
	n := verif.Int64("n")
	verif.Assume(verif.And(n > -9007199254740992, n < 9007199254740992))
	b := verif.Bool("b")
	l0 := verif.Int64("l0")
	verif.Assume(verif.And(l0 >= 0, l0 <= 70000)) // may exceed uint16: all three must fail alike
	mk := func(num func(int64) interface{}) interface{} {
		return map[string]interface{}{"n": num(n), "f": 1.5, "s": "text", "b": b, "l": []interface{}{num(l0), num(7)}, "n2": num(n)}
	}
	ys := map[interface{}]interface{}{}
	for k, v := range mk(func(i int64) interface{} { return int(i) }).(map[string]interface{}) {
		ys[k] = v
	}
	js := mk(func(i int64) interface{} { return float64(i) })
	bs := "false"
	if b {
		bs = "true"
	}
	text := `{"n": ` + strconv.FormatInt(n, 10) + `, "f": 1.5, "s": "text", "b": ` + bs + `, "l": [` + strconv.FormatInt(l0, 10) + `, 7], "n2": ` + strconv.FormatInt(n, 10) + `}`
	verif.DecoderResult("yaml", ys)
	verif.DecoderResult("json", js)
	verif.DecoderResult("hjson", js)
	withFile := verif.Choice("with-file", 2) == 1
	var cy, cj, ch *ucfg.Config
	var ey, ej, eh error
	if withFile {
		py := verif.VirtualFile("conf/doc.yml", text)
		pj := verif.VirtualFile("conf/doc.json", text)
		ph := verif.VirtualFile("conf/doc.hjson", text)
		cy, ey = yaml.NewConfigWithFile(py)
		cj, ej = json.NewConfigWithFile(pj)
		ch, eh = hjson.NewConfigWithFile(ph)
	} else {
		cy, ey = yaml.NewConfig(verif.TextBytes(text))
		cj, ej = json.NewConfig(verif.TextBytes(text))
		ch, eh = hjson.NewConfig(verif.TextBytes(text))
	}
	verif.Assert(ey == nil && ej == nil && eh == nil, "C18/typed: documents load")
	if ey != nil || ej != nil || eh != nil {
		return
	}
	var ty, tj, th c18Typed
	uy, uj, uh := cy.Unpack(&ty), cj.Unpack(&tj), ch.Unpack(&th)
	verif.Assert((uy == nil) == (uj == nil) && (uj == nil) == (uh == nil), "C18/typed unpack succeeds or fails alike")
	if uy == nil && uj == nil && uh == nil {
		verif.Reach("typed data compared")
		same := func(a, b *c18Typed) bool {
			res := verif.And(verif.And(a.N == b.N, a.F == b.F), verif.And(a.S == b.S, a.B == b.B))
			res = verif.And(res, verif.And(a.NF == b.NF, len(a.L) == len(b.L)))
			if len(a.L) == 2 && len(b.L) == 2 {
				res = verif.And(res, verif.And(a.L[0] == b.L[0], a.L[1] == b.L[1]))
			}
			return res
		}
		verif.Assert(verif.And(same(&ty, &tj), same(&tj, &th)), "C18/typed targets receive the same data from the three front-ends")
		verif.Assert(ty.N == n, "C18/typed value is the document's value")
	} else if uy != nil && withFile {
		verif.Reach("typed failure with file")
		verif.Assert(strings.Contains(uy.Error(), "doc.yml") || strings.Contains(uy.Error(), "doc_yml") || strings.Contains(uy.Error(), "conf_doc.yml"), "C18/WithFile: the error about a setting mentions the file")
		verif.Assert(strings.Contains(uj.Error(), "doc.json") || strings.Contains(uj.Error(), "conf_doc.json"), "C18/WithFile: the error about a setting mentions the file (json)")
	}
}

// integers at and beyond the edges of int64 / uint64 that float64 represents exactly, so that the
// JSON decoders (float64 for every number) and the YAML decoder (int, uint64 above MaxInt64, float64
// above MaxUint64) describe the same number
var c18Big = []struct {
	txt string
	y   interface{}
	j   float64
}{
	{"9223372036854775808", uint64(1 << 63), 9223372036854775808.0},
	{"4611686018427387904", int(1 << 62), 4611686018427387904.0},
	{"-9223372036854775808", int(-1 << 63), -9223372036854775808.0},
	{"18446744073709551616", 18446744073709551616.0, 18446744073709551616.0},
	{"9007199254740992", int(1 << 53), 9007199254740992.0},
	{"2147483648", int(1 << 31), 2147483648.0},
}

// H_C18_big: numbers at the edges of the integer types into every kind of numeric target.
func H_C18_big() {
	e := c18Big[verif.Choice("number", len(c18Big))]
	text := verif.TextBytes(`{"n": ` + e.txt + `}`)
	verif.DecoderResult("yaml", map[interface{}]interface{}{"n": e.y})
	verif.DecoderResult("json", map[string]interface{}{"n": e.j})
	verif.DecoderResult("hjson", map[string]interface{}{"n": e.j})
	cy, ey := yaml.NewConfig(text)
	cj, ej := json.NewConfig(text)
	ch, eh := hjson.NewConfig(text)
	verif.Assert(ey == nil && ej == nil && eh == nil, "C18/big: documents load")
	if ey != nil || ej != nil || eh != nil {
		return
	}
	target := verif.Choice("target", 6)
	unpack := func(c *ucfg.Config) (float64, string, error) {
		switch target {
		case 0:
			var t struct {
				N int64 `config:"n"`
			}
			err := c.Unpack(&t)
			return float64(t.N), strconv.FormatInt(t.N, 10), err
		case 1:
			var t struct {
				N uint64 `config:"n"`
			}
			err := c.Unpack(&t)
			return float64(t.N), strconv.FormatUint(t.N, 10), err
		case 2:
			var t struct {
				N int32 `config:"n"`
			}
			err := c.Unpack(&t)
			return float64(t.N), strconv.FormatInt(int64(t.N), 10), err
		case 3:
			var t struct {
				N float64 `config:"n"`
			}
			err := c.Unpack(&t)
			return t.N, "", err
		case 4:
			var t struct {
				N uint32 `config:"n"`
			}
			err := c.Unpack(&t)
			return float64(t.N), strconv.FormatUint(uint64(t.N), 10), err
		default:
			var t struct {
				N interface{} `config:"n"`
			}
			err := c.Unpack(&t)
			switch x := t.N.(type) {
			case int64:
				return float64(x), "", err
			case uint64:
				return float64(x), "", err
			case float64:
				return x, "", err
			}
			return -1, "?", err
		}
	}
	fy, sy, uy := unpack(cy)
	fj, sj, uj := unpack(cj)
	fh, sh, uh := unpack(ch)
	verif.Reach("big number compared")
	verif.Assert((uy == nil) == (uj == nil) && (uj == nil) == (uh == nil), "C18/big: typed unpack succeeds or fails alike/target="+itoa(target))
	if uy == nil && uj == nil && uh == nil {
		verif.Assert(fy == fj && fj == fh && sy == sj && sj == sh, "C18/big: the three front-ends deliver the same number/target="+itoa(target))
		verif.Assert(fy == e.j, "C18/big: the number delivered is the document's number/target="+itoa(target))
	}
}

type c18TLS struct {
	Cert string `config:"cert"`
	Key  string `config:"key"`
}
type c18TLSReq struct {
	Cert string `config:"cert"`
	Key  string `config:"key" validate:"required"`
}
type c18TLSInt struct {
	Cert int `config:"cert"`
}

// H_C18_file: the *WithFile loaders with a path separator: errors about a setting mention the file,
// whichever way the document spells the setting (nested objects, one dotted key, dotted keys with
// several separators) and whether the error concerns a leaf or an object that only exists as an
// intermediate node of a dotted key; the data equals the in-memory loader's.
func H_C18_file() {
	opts := []ucfg.Option{ucfg.PathSep(".")}
	port := verif.Int64("port")
	verif.Assume(verif.And(port >= 0, port < 65536))
	var ys, js interface{}
	var text string
	ptxt := strconv.FormatInt(port, 10)
	switch verif.Choice("spelling", 4) {
	case 0:
		text = `{"server": {"tls": {"cert": "c.pem"}, "port": ` + ptxt + `}}`
		ys = map[interface{}]interface{}{"server": map[interface{}]interface{}{"tls": map[interface{}]interface{}{"cert": "c.pem"}, "port": int(port)}}
		js = map[string]interface{}{"server": map[string]interface{}{"tls": map[string]interface{}{"cert": "c.pem"}, "port": float64(port)}}
	case 1:
		text = `{"server": {"tls.cert": "c.pem", "port": ` + ptxt + `}}`
		ys = map[interface{}]interface{}{"server": map[interface{}]interface{}{"tls.cert": "c.pem", "port": int(port)}}
		js = map[string]interface{}{"server": map[string]interface{}{"tls.cert": "c.pem", "port": float64(port)}}
	case 2:
		// (no other key below server: both intermediate objects are created for this one key)
		text = `{"server.tls.cert": "c.pem", "port": ` + ptxt + `}`
		ys = map[interface{}]interface{}{"server.tls.cert": "c.pem", "port": int(port)}
		js = map[string]interface{}{"server.tls.cert": "c.pem", "port": float64(port)}
	case 3:
		text = `{"server.tls": {"cert": "c.pem"}, "server.port": ` + ptxt + `}`
		ys = map[interface{}]interface{}{"server.tls": map[interface{}]interface{}{"cert": "c.pem"}, "server.port": int(port)}
		js = map[string]interface{}{"server.tls": map[string]interface{}{"cert": "c.pem"}, "server.port": float64(port)}
	}
	verif.DecoderResult("yaml", ys)
	verif.DecoderResult("json", js)
	verif.DecoderResult("hjson", js)
	fe := verif.Choice("front-end", 3)
	var c, mem *ucfg.Config
	var err, merr error
	var path string
	switch fe {
	case 0:
		path = verif.VirtualFile("conf/srv.yml", text)
		c, err = yaml.NewConfigWithFile(path, opts...)
		mem, merr = yaml.NewConfig(verif.TextBytes(text), opts...)
	case 1:
		path = verif.VirtualFile("conf/srv.json", text)
		c, err = json.NewConfigWithFile(path, opts...)
		mem, merr = json.NewConfig(verif.TextBytes(text), opts...)
	case 2:
		path = verif.VirtualFile("conf/srv.hjson", text)
		c, err = hjson.NewConfigWithFile(path, opts...)
		mem, merr = hjson.NewConfig(verif.TextBytes(text), opts...)
	}
	verif.Assert(err == nil && merr == nil, "C18/file: document loads")
	if err != nil || merr != nil {
		return
	}
	var m1, m2 map[string]interface{}
	e1, e2 := c.Unpack(&m1, opts...), mem.Unpack(&m2, opts...)
	verif.Assert(e1 == nil && e2 == nil && eqNumTree(m1, m2), "C18/file: WithFile loader yields the same data as the in-memory loader")
	var uerr error
	fault := verif.Choice("fault", 6)
	switch fault {
	case 4: // a required top-level setting the document does not have
		var t struct {
			Name   string `config:"name" validate:"required"`
			Server struct {
				Port int `config:"port"`
			} `config:"server"`
		}
		uerr = c.Unpack(&t, opts...)
	case 5: // a getter for a top-level setting the document does not have
		_, uerr = c.String("name", -1, opts...)
	case 0: // an object where a number is required
		var t struct {
			Server struct {
				TLS  int `config:"tls"`
				Port int `config:"port"`
			} `config:"server"`
		}
		uerr = c.Unpack(&t, opts...)
	case 1: // a required setting missing inside the object
		var t struct {
			Server struct {
				TLS  c18TLSReq `config:"tls"`
				Port int       `config:"port"`
			} `config:"server"`
		}
		uerr = c.Unpack(&t, opts...)
	case 2: // a leaf of the wrong type
		var t struct {
			Server struct {
				TLS  c18TLSInt `config:"tls"`
				Port int       `config:"port"`
			} `config:"server"`
		}
		uerr = c.Unpack(&t, opts...)
	case 3: // the outer object where a number is required
		var t struct {
			Server int `config:"server"`
		}
		uerr = c.Unpack(&t, opts...)
	}
	verif.Reach("file error checked")
	verif.Assert(uerr != nil, "C18/file: the faulty target is refused")
	if uerr != nil {
		verif.Assert(strings.Contains(uerr.Error(), path), "C18/file: the error about a setting mentions the file/fault="+itoa(fault))
	}
}

// H_C18_kinds: one scalar of every JSON kind into one target of every primitive kind: the three
// front-ends accept or reject alike and deliver the same value (YAML hands integers over as int,
// JSON and HJSON as float64 - go-ucfg has to make that invisible).
func H_C18_kinds() {
	type scalar struct {
		txt string
		y   interface{}
		j   interface{}
	}
	vals := []scalar{
		{"0", 0, 0.0}, {"1", 1, 1.0}, {"2", 2, 2.0}, {"-1", -1, -1.0}, {"255", 255, 255.0}, {"256", 256, 256.0},
		{"1000000", 1000000, 1000000.0}, {"123456789012", 123456789012, 123456789012.0},
		{"9223372036854775808", uint64(1 << 63), 9223372036854775808.0}, {"10000000000000000000", uint64(10000000000000000000), 1e19},
		{"-9223372036854775808", -1 << 63, -9223372036854775808.0},
		{"1.5", 1.5, 1.5}, {"true", true, true}, {"\"1\"", "1", "1"}, {"\"true\"", "true", "true"}, {"\"x\"", "x", "x"}, {"null", nil, nil},
	}
	e := vals[verif.Choice("value", len(vals))]
	text := verif.TextBytes(`{"v": ` + e.txt + `, "w": "pre-${v}"}`)
	verif.DecoderResult("yaml", map[interface{}]interface{}{"v": e.y, "w": "pre-${v}"})
	verif.DecoderResult("json", map[string]interface{}{"v": e.j, "w": "pre-${v}"})
	verif.DecoderResult("hjson", map[string]interface{}{"v": e.j, "w": "pre-${v}"})
	opts := []ucfg.Option{ucfg.VarExp}
	cy, ey := yaml.NewConfig(text, opts...)
	cj, ej := json.NewConfig(text, opts...)
	ch, eh := hjson.NewConfig(text, opts...)
	verif.Assert(ey == nil && ej == nil && eh == nil, "C18/kinds: documents load")
	if ey != nil || ej != nil || eh != nil {
		return
	}
	target := verif.Choice("target", 8)
	unpack := func(c *ucfg.Config) (string, error) {
		switch target {
		case 0:
			var t struct {
				V bool `config:"v"`
			}
			err := c.Unpack(&t, opts...)
			return strconv.FormatBool(t.V), err
		case 1:
			var t struct {
				V int64 `config:"v"`
			}
			err := c.Unpack(&t, opts...)
			return strconv.FormatInt(t.V, 10), err
		case 2:
			var t struct {
				V uint8 `config:"v"`
			}
			err := c.Unpack(&t, opts...)
			return strconv.FormatUint(uint64(t.V), 10), err
		case 3:
			var t struct {
				V float64 `config:"v"`
			}
			err := c.Unpack(&t, opts...)
			return strconv.FormatFloat(t.V, 'g', -1, 64), err
		case 4:
			var t struct {
				V string `config:"v"`
			}
			err := c.Unpack(&t, opts...)
			return t.V, err
		case 5:
			var t struct {
				V []bool `config:"v"`
			}
			err := c.Unpack(&t, opts...)
			if len(t.V) == 1 {
				return strconv.FormatBool(t.V[0]), err
			}
			return itoa(len(t.V)), err
		case 6:
			// the number spliced into a string
			var t struct {
				W string `config:"w"`
			}
			err := c.Unpack(&t, opts...)
			return t.W, err
		default:
			var t struct {
				V *int16 `config:"v"`
			}
			err := c.Unpack(&t, opts...)
			if t.V != nil {
				return strconv.FormatInt(int64(*t.V), 10), err
			}
			return "nil", err
		}
	}
	sy, uy := unpack(cy)
	sj, uj := unpack(cj)
	sh, uh := unpack(ch)
	verif.Reach("kinds compared")
	lbl := "/target=" + itoa(target)
	verif.Assert((uy == nil) == (uj == nil) && (uj == nil) == (uh == nil), "C18/kinds: typed unpack succeeds or fails alike"+lbl)
	if uy == nil && uj == nil && uh == nil {
		verif.Assert(sy == sj && sj == sh, "C18/kinds: the three front-ends deliver the same value"+lbl)
	}
}
