package h

// C01 Merge follows the selected policy exactly (override, union, array policy).

import (
	ucfg "github.com/elastic/go-ucfg"

	"vharness/verif"
)

// c01Spec: quick = depth 1, wide (two keys, lists up to 2). Thorough = the quick family plus a deep
// narrow one (depth 2 over one key, lists up to 1): 173 shapes per side instead of 23.
func c01Spec() genSpec {
	if verif.Tier() > 0 && verif.Choice("family", 2) == 1 {
		return genSpec{depth: 2, keys: []string{"a"}, maxList: 1, prims: 1, mixed: true}
	}
	return genSpec{depth: 1, keys: []string{"a", "b"}, maxList: 2, prims: 1, mixed: true}
}

// mkSource gives B to Merge as generic map, or as *Config.
func mkSource(n *Node, how int) interface{} {
	if how == 0 {
		return n.toGo()
	}
	c, err := ucfg.NewFrom(n.toGo())
	verif.Assume(err == nil)
	return c
}

// c01Src is B as a Go struct (the third kind of source the statement names).
type c01Src struct {
	K interface{} `config:"k"`
	T uint64      `config:"t"`
	L []uint64    `config:"l"`
}

// H_C01_pair: one varying key next to fixed siblings on both sides, all five policies.
func H_C01_pair() {
	sp := c01Spec()
	x := genNode("A.k", sp, true)
	y := genNode("B.k", sp, true)
	a := nDict().set("k", x).set("s", nUint(verif.Uint64("A.s"))).set("l", nList(nUint(1), nUint(2)))
	b := nDict().set("k", y).set("t", nUint(verif.Uint64("B.t"))).set("l", nList(nUint(verif.Uint64("B.l0"))))
	pol := verif.Choice("policy", nPolicies)
	how := verif.Choice("source", 3)

	ca, err := ucfg.NewFrom(a.toGo())
	verif.Assert(err == nil, "C01/NewFrom(A) accepted")
	if err != nil {
		return
	}
	var src interface{}
	if how == 2 {
		// a struct: an absent k cannot be expressed (a nil field is the setting nil)
		if y.Kind == kAbsent {
			return
		}
		src = c01Src{K: y.toGo(), T: b.get("t").U, L: []uint64{b.get("l").List[0].U}}
	} else {
		src = mkSource(b, how)
	}
	err = ca.Merge(src, polOpts(pol)...)
	verif.Assert(err == nil, "C01/Merge accepted/"+polName[pol])
	if err != nil {
		return
	}
	got, err := unpackTree(ca)
	verif.Assert(err == nil, "C01/unpack after merge")
	if err != nil {
		return
	}
	want := mergeVal(constPol(pol), nil, a, b)
	verif.Reach("merged and compared")
	if x.Kind == kCfg && y.Kind == kCfg {
		verif.Reach("both sides containers")
	}
	verif.Assert(eqTree(got, want), "C01/merge result/"+polName[pol])
}

// H_C01_laws: identity of the empty config, idempotence of self-merge, length / order of append and prepend.
func H_C01_laws() {
	sp := c01Spec()
	a := nDict().set("k", genNode("A.k", sp, true)).set("s", nUint(verif.Uint64("A.s")))
	ca, err := ucfg.NewFrom(a.toGo())
	verif.Assume(err == nil)
	pol := verif.Choice("policy", nPolicies)
	switch verif.Choice("law", 4) {
	case 0: // A.Merge(empty) == A
		verif.Assert(ca.Merge(ucfg.New(), polOpts(pol)...) == nil, "C01/law/merge empty accepted")
		got, err := unpackTree(ca)
		verif.Assert(err == nil && eqTree(got, a), "C01/law/A.Merge(empty)=A/"+polName[pol])
	case 1: // empty.Merge(A) == A
		e := ucfg.New()
		verif.Assert(e.Merge(ca, polOpts(pol)...) == nil, "C01/law/merge into empty accepted")
		got, err := unpackTree(e)
		verif.Assert(err == nil && eqTree(got, a), "C01/law/empty.Merge(A)=A/"+polName[pol])
	case 2: // A.Merge(A): identity under default and replace, doubled lists under append / prepend
		verif.Assert(ca.Merge(ca, polOpts(pol)...) == nil, "C01/law/self merge accepted")
		got, err := unpackTree(ca)
		if pol == polDefault || pol == polReplace || pol == polArrReplace {
			verif.Assert(err == nil && eqTree(got, a), "C01/law/A.Merge(A)=A/"+polName[pol])
		} else {
			// the operands of a self merge are A and A: the reference merge of the two
			verif.Assert(err == nil && eqTree(got, mergeVal(constPol(pol), nil, a, a)), "C01/law/A.Merge(A) combines A with A/"+polName[pol])
		}
	case 3: // append / prepend: length is the sum, order preserved
		n := verif.Choice("la", 3)
		m := verif.Choice("lb", 3)
		la, lb := nList(), nList()
		for i := 0; i < n; i++ {
			la.List = append(la.List, nUint(verif.Uint64("la."+itoa(i))))
		}
		for i := 0; i < m; i++ {
			lb.List = append(lb.List, nUint(verif.Uint64("lb."+itoa(i))))
		}
		c1, err := ucfg.NewFrom(map[string]interface{}{"l": la.toGo()})
		verif.Assume(err == nil)
		app := verif.Choice("append", 2) == 0
		o := ucfg.AppendValues
		if !app {
			o = ucfg.PrependValues
		}
		verif.Assert(c1.Merge(map[string]interface{}{"l": lb.toGo()}, o) == nil, "C01/law/append merge accepted")
		cnt, err := c1.CountField("l")
		verif.Assert(err == nil && cnt == n+m, "C01/law/append-prepend length is the sum")
		want := nList()
		if app {
			want.List = append(append(want.List, la.List...), lb.List...)
		} else {
			want.List = append(append(want.List, lb.List...), la.List...)
		}
		got, err := unpackTree(c1)
		verif.Assert(err == nil && eqTree(got, nDict().set("l", want)), "C01/law/append-prepend order")
	}
	verif.Reach("law checked")
}

// H_C01_chain: three merges against the model fold.
func H_C01_chain() {
	sp := genSpec{depth: 1, keys: []string{"a"}, maxList: 1, prims: 1}
	// the source of a merge may itself be the result of merges (a *Config that went through a type change)
	viaConfig := verif.Choice("chain-source-is-config", 2) == 1
	a := nDict().set("k", genNode("A.k", sp, true))
	b := nDict().set("k", genNode("B.k", sp, true))
	c := nDict().set("k", genNode("C.k", sp, true))
	pol := verif.Choice("policy", nPolicies)
	cfg, err := ucfg.NewFrom(a.toGo())
	verif.Assume(err == nil)
	var want *Node
	if viaConfig {
		// C.Merge(X) where X = A.Merge(B): the merged config is the source
		verif.Assert(cfg.Merge(b.toGo(), polOpts(pol)...) == nil, "C01/chain/merge B accepted")
		dst, err := ucfg.NewFrom(c.toGo())
		verif.Assume(err == nil)
		verif.Assert(dst.Merge(cfg, polOpts(pol)...) == nil, "C01/chain/merge of a merged config accepted")
		want = mergeVal(constPol(pol), nil, c, mergeVal(constPol(pol), nil, a, b))
		cfg = dst
	} else {
		verif.Assert(cfg.Merge(b.toGo(), polOpts(pol)...) == nil, "C01/chain/merge B accepted")
		verif.Assert(cfg.Merge(c.toGo(), polOpts(pol)...) == nil, "C01/chain/merge C accepted")
		want = mergeVal(constPol(pol), nil, mergeVal(constPol(pol), nil, a, b), c)
	}
	got, err := unpackTree(cfg)
	verif.Reach("chain compared")
	verif.Assert(err == nil && eqTree(got, want), "C01/chain result/"+polName[pol])
}

// H_C01_refs: A's setting k is a reference to another setting r of A that holds a container.
// Merging B = {k: Y} concerns k only: the union leaves r (only A has it) exactly as it was,
// and k is B's value, or the merged contents when Y is a container too.
func H_C01_refs() {
	sp := c01Spec()
	x := genNode("A.r", sp, true)
	if x.Kind != kCfg {
		return // the referenced setting is a container (object, list or both)
	}
	y := genNode("B.k", sp, true)
	pol := verif.Choice("policy", nPolicies)
	how := verif.Choice("source", 2)
	opts := append([]ucfg.Option{ucfg.VarExp, ucfg.PathSep(".")}, polOpts(pol)...)
	s := nUint(verif.Uint64("A.s"))
	ca, err := ucfg.NewFrom(map[string]interface{}{"k": "${r}", "r": x.toGo(), "s": s.toGo()}, opts...)
	verif.Assume(err == nil)
	b := nDict().set("k", y)
	var src interface{} = b.toGo()
	if how == 1 {
		c, err := ucfg.NewFrom(b.toGo(), opts...)
		verif.Assume(err == nil)
		src = c
	}
	err = ca.Merge(src, opts...)
	verif.Assert(err == nil, "C01/refs: Merge accepted/"+polName[pol])
	if err != nil {
		return
	}
	got, err := unpackTree(ca, opts...)
	verif.Assert(err == nil, "C01/refs: unpack after merge")
	if err != nil {
		return
	}
	// the model merges B into A with k standing for what it refers to (ReplaceValues replaces A's dictionary wholesale)
	want := mergeVal(constPol(pol), nil, nDict().set("k", x).set("r", x).set("s", s), b)
	verif.Reach("merged over a reference and compared")
	verif.Assert(eqTree(got, want), "C01/refs: merging over a reference leaves the referenced setting alone/"+polName[pol])
}
