package h

// Reference semantics of path-addressed operations (DESIGN Appendix B.2),
// written from the property statements: an address is a sequence of names
// and indices; reads, writes and removals act on a plain tree.

import (
	"strconv"
	"strings"
)

type seg struct {
	name  string
	idx   int
	isIdx bool
}

const modelMaxIdx = 1024

// parseAddr: name split at the separator (if any), a segment is an index iff it
// is an integer literal in [0, MaxIdx]; idx >= 0 is appended; an empty name is [idx].
func parseAddr(name string, idx int, sep bool) []seg {
	if name == "" {
		return []seg{{idx: idx, isIdx: true}}
	}
	parts := []string{name}
	if sep {
		parts = strings.Split(name, ".")
	}
	var out []seg
	for _, p := range parts {
		if v, err := strconv.ParseInt(p, 0, 64); err == nil && v >= 0 && v <= modelMaxIdx {
			out = append(out, seg{idx: int(v), isIdx: true})
		} else {
			out = append(out, seg{name: p})
		}
	}
	if idx >= 0 {
		out = append(out, seg{idx: idx, isIdx: true})
	}
	return out
}

const (
	stOK = iota
	stMissing
	stError // the path runs through a primitive
)

// step descends one segment. The result node may be nil (missing).
func step(cur *Node, s seg) (*Node, int) {
	switch cur.Kind {
	case kAbsent:
		return nil, stMissing
	case kNil:
		return nil, stMissing
	case kCfg:
		if s.isIdx {
			if s.idx < 0 || s.idx >= len(cur.List) {
				return nil, stMissing
			}
			return cur.List[s.idx], stOK
		}
		c := cur.get(s.name)
		if c == nil || c.Kind == kAbsent {
			return nil, stMissing
		}
		return c, stOK
	}
	// primitive
	if s.isIdx && s.idx == 0 {
		return cur, stOK
	}
	return nil, stError
}

// modelGet resolves an address.
func modelGet(root *Node, addr []seg) (*Node, int) {
	cur := root
	for _, s := range addr {
		n, st := step(cur, s)
		if st != stOK {
			return nil, st
		}
		cur = n
	}
	return cur, stOK
}

// modelSet writes val at addr. It reports false (and changes nothing) if the
// node to write into is a primitive or the index is not writable.
func modelSet(root *Node, addr []seg, val *Node) bool {
	cur := root
	i := 0
	// descend while the intermediate nodes exist and are not nil
	for ; i < len(addr)-1; i++ {
		n, st := step(cur, addr[i])
		if st == stError {
			return false
		}
		if st == stMissing || n.Kind == kNil {
			break
		}
		cur = n
	}
	// build the missing remainder bottom up
	for j := len(addr) - 1; j > i; j-- {
		w := &Node{Kind: kCfg}
		if !setChild(w, addr[j], val) {
			return false
		}
		val = w
	}
	if cur.Kind != kCfg {
		return false
	}
	return setChild(cur, addr[i], val)
}

func setChild(n *Node, s seg, val *Node) bool {
	if s.isIdx {
		if s.idx < 0 || s.idx > modelMaxIdx {
			return false
		}
		for len(n.List) <= s.idx {
			n.List = append(n.List, nNil())
		}
		n.List[s.idx] = val
		return true
	}
	n.set(s.name, val)
	return true
}

// modelRemove deletes the addressed setting: (removed, ok).
func modelRemove(root *Node, addr []seg) (bool, bool) {
	cur := root
	for i := 0; i < len(addr)-1; i++ {
		n, st := step(cur, addr[i])
		if st == stError {
			return false, false
		}
		if st == stMissing {
			return false, true
		}
		cur = n
	}
	last := addr[len(addr)-1]
	switch cur.Kind {
	case kNil:
		return false, true
	case kCfg:
	default:
		return false, false
	}
	if last.isIdx {
		if last.idx < 0 || last.idx >= len(cur.List) {
			return false, true
		}
		cur.List = append(cur.List[:last.idx:last.idx], cur.List[last.idx+1:]...)
		return true, true
	}
	c := cur.get(last.name)
	if c == nil || c.Kind == kAbsent {
		return false, true
	}
	cur.Dict[last.name] = nAbsent()
	return true, true
}
