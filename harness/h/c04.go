package h

// C04 A successful Unpack returns only values that satisfy every declared validator.

import (
	"errors"
	"strings"
	"time"

	ucfg "github.com/elastic/go-ucfg"

	"vharness/verif"
)

// ---- family 1: scalar fields with every validator tag ----

type v1 struct {
	A int           `config:"a" validate:"min=1, max=10"`
	B uint8         `config:"b" validate:"nonzero"`
	C float64       `config:"c" validate:"positive"`
	D time.Duration `config:"d" validate:"min=1s, max=1h"`
	E string        `config:"e" validate:"required"`
	F int64         `config:"f" validate:"positive"`
	G uint16        `config:"g" validate:"min=2, max=300"`
	H float32       `config:"h" validate:"max=1.5"`
	I int8          `config:"i" validate:"required"`
	J time.Duration `config:"j" validate:"nonzero, positive"`
}

func (t *v1) valid() bool {
	num := verif.And(verif.And(t.A >= 1, t.A <= 10), verif.And(t.B != 0, t.C >= 0))
	dur := verif.And(verif.And(t.D >= time.Second, t.D <= time.Hour), verif.And(t.J != 0, t.J >= 0))
	rest := verif.And(verif.And(t.E != "", t.F >= 0), verif.And(verif.And(t.G >= 2, t.G <= 300), verif.And(t.H <= 1.5, t.I != 0)))
	return verif.And(verif.And(num, dur), rest)
}

func present(name string) bool { return verif.Choice("present."+name, 2) == 1 }

// H_C04_scalars: every combination of present / absent settings, symbolic values and symbolic defaults.
func H_C04_scalars() {
	var t v1
	// pre-filled defaults (symbolic): either valid or invalid, the solver chooses
	t.A, t.B, t.C = verif.Int("dflt.a"), verif.Uint8("dflt.b"), verif.Float64("dflt.c")
	t.D = time.Duration(verif.Int64("dflt.d"))
	t.F, t.G, t.H, t.I = verif.Int64("dflt.f"), verif.Uint16("dflt.g"), verif.Float32("dflt.h"), verif.Int8("dflt.i")
	t.J = time.Duration(verif.Int64("dflt.j"))
	if verif.Choice("dflt.e", 2) == 1 {
		t.E = "dflt"
	}
	// (NaN defaults and settings are included: every comparison with NaN is false, so NaN satisfies no bound)
	c := ucfg.New()
	// which single setting is supplied by the configuration (keeps the path count linear)
	switch verif.Choice("setting", 11) {
	case 0:
	case 1:
		c.SetInt("a", -1, verif.Int64("cfg.a"))
	case 2:
		c.SetUint("b", -1, verif.Uint64("cfg.b"))
	case 3:
		c.SetFloat("c", -1, verif.Float64("cfg.c"))
	case 4:
		c.SetInt("d", -1, verif.Int64("cfg.d")) // seconds
	case 5:
		if verif.Choice("cfg.e", 2) == 1 {
			c.SetString("e", -1, "x")
		} else {
			c.SetString("e", -1, "")
		}
	case 6:
		c.SetInt("f", -1, verif.Int64("cfg.f"))
	case 7:
		c.SetUint("g", -1, verif.Uint64("cfg.g"))
	case 8:
		c.SetFloat("h", -1, verif.Float64("cfg.h"))
	case 9:
		c.SetInt("i", -1, verif.Int64("cfg.i"))
	case 10:
		c.SetInt("j", -1, verif.Int64("cfg.j"))
	}
	err := c.Unpack(&t)
	if err == nil {
		verif.Reach("unpack succeeded")
		verif.Assert(t.valid(), "C04/scalars: successful Unpack implies every validator holds")
	} else {
		verif.Reach("unpack failed")
	}
}

// H_C04_scalars_converse: a default that breaks a validator makes Unpack fail with an error naming the field.
func H_C04_scalars_converse() {
	t := v1{A: 5, B: 1, C: 1, D: time.Minute, E: "e", F: 1, G: 5, H: 1, I: 1, J: time.Second}
	field := ""
	switch verif.Choice("broken", 10) {
	case 0:
		t.A, field = 0, "a"
	case 1:
		t.B, field = 0, "b"
	case 2:
		t.C, field = -1, "c"
	case 3:
		t.D, field = time.Millisecond, "d"
	case 4:
		t.E, field = "", "e"
	case 5:
		t.F, field = -1, "f"
	case 6:
		t.G, field = 301, "g"
	case 7:
		t.H, field = 2, "h"
	case 8:
		t.I, field = 0, "i"
	case 9:
		t.J, field = -time.Second, "j"
	}
	c, err := ucfg.NewFrom(map[string]interface{}{"unrelated": 1})
	verif.Assume(err == nil)
	err = c.Unpack(&t)
	verif.Reach("broken default")
	verif.Assert(err != nil, "C04/scalars: a default that breaks a validator makes Unpack fail")
	if err != nil {
		verif.Assert(strings.Contains(err.Error(), "'"+field+"'"), "C04/scalars: the error names the field")
	}
}

// ---- family 2: validators reached through nesting ----

type vIn struct {
	X int  `config:"x" validate:"min=1"`
	Y uint `config:"y" validate:"max=5"`
}

func (v *vIn) valid() bool { return verif.And(v.X >= 1, v.Y <= 5) }

type vInit struct {
	X int `config:"x" validate:"min=1"`
}

func (v *vInit) InitDefaults() { v.X = vInitDefault }

var vInitDefault = 3

type vSelf struct {
	Z int `config:"z"`
}

var errUnlucky = errors.New("unlucky")

func (v vSelf) Validate() error {
	if v.Z == 13 {
		return errUnlucky
	}
	return nil
}

type vPtrSelf struct {
	Z int `config:"z"`
}

func (v *vPtrSelf) Validate() error {
	if v.Z == 13 {
		return errUnlucky
	}
	return nil
}

type vInline struct {
	Q int `config:"q" validate:"nonzero"`
}

type v2 struct {
	In   vIn            `config:"in"`
	P    *vIn           `config:"p"`
	L    []vIn          `config:"l"`
	Arr  [2]vIn         `config:"arr"`
	M    map[string]vIn `config:"m"`
	Init vInit          `config:"init"`
	S    vSelf          `config:"s"`
	PS   vPtrSelf       `config:"ps"`
	LS   []vSelf        `config:"ls"`
	Inl  vInline        `config:",inline"`
	PI   *int           `config:"pi" validate:"min=1"`
	PU   *uint          `config:"pu" validate:"nonzero"`
	Req  []int          `config:"req" validate:"required"`
	NZ   map[string]int `config:"nz" validate:"nonzero"`
}

func (t *v2) valid() bool {
	ok := verif.And(t.In.valid(), t.Init.X >= 1)
	if t.P != nil {
		ok = verif.And(ok, t.P.valid())
	}
	for i := range t.L {
		ok = verif.And(ok, t.L[i].valid())
	}
	for i := range t.Arr {
		ok = verif.And(ok, t.Arr[i].valid())
	}
	for _, k := range []string{"k1", "k2"} {
		if e, found := t.M[k]; found {
			ok = verif.And(ok, e.valid())
		}
	}
	ok = verif.And(ok, verif.And(t.S.Z != 13, t.PS.Z != 13))
	for i := range t.LS {
		ok = verif.And(ok, t.LS[i].Z != 13)
	}
	ok = verif.And(ok, t.Inl.Q != 0)
	if t.PI != nil {
		ok = verif.And(ok, *t.PI >= 1)
	}
	if t.PU != nil {
		ok = verif.And(ok, *t.PU != 0)
	}
	ok = verif.And(ok, len(t.Req) > 0)
	if t.NZ != nil {
		ok = verif.And(ok, len(t.NZ) > 0)
	}
	return ok
}

func symIn(name string) vIn {
	return vIn{X: verif.Int(name + ".x"), Y: verif.Uint(name + ".y")}
}

// H_C04_nested: one position at a time is pre-filled symbolically and/or supplied by the
// configuration with symbolic values; everything else holds valid defaults.
func H_C04_nested() {
	t := v2{In: vIn{X: 1}, Arr: [2]vIn{{X: 1}, {X: 1}}, Inl: vInline{Q: 1}, Req: []int{1}}
	cfg := map[string]interface{}{}
	where := verif.Choice("where", 14)
	viaCfg := verif.Choice("via", 3) // 0 default only, 1 config only, 2 default and config
	cx, cy := verif.Int64("cfg.x"), verif.Uint64("cfg.y")
	sub := map[string]interface{}{"x": cx, "y": cy}
	pre := viaCfg != 1
	conf := viaCfg != 0
	switch where {
	case 0:
		if pre {
			t.In = symIn("dflt.in")
		}
		if conf {
			cfg["in"] = sub
		}
	case 1:
		if pre {
			p := symIn("dflt.p")
			t.P = &p
		}
		if conf {
			cfg["p"] = sub
		}
	case 2:
		if pre {
			t.L = []vIn{{X: 1}, symIn("dflt.l1")}
		}
		if conf {
			cfg["l"] = []interface{}{sub}
		}
	case 3:
		if pre {
			t.Arr[1] = symIn("dflt.arr1")
		}
		if conf {
			cfg["arr"] = []interface{}{sub, map[string]interface{}{"x": 2}}
		}
	case 4:
		if pre {
			t.M = map[string]vIn{"k1": symIn("dflt.m.k1")}
		}
		if conf {
			// the configuration mentions another key, or the pre-filled one
			if verif.Choice("cfg.m.key", 2) == 1 {
				cfg["m"] = map[string]interface{}{"k1": sub}
			} else {
				cfg["m"] = map[string]interface{}{"k2": sub}
			}
		}
	case 5:
		if pre {
			vInitDefault = verif.Int("initdefault")
		}
		if conf {
			cfg["init"] = map[string]interface{}{"x": cx}
		}
	case 6:
		if pre {
			t.S.Z = verif.Int("dflt.s.z")
		}
		if conf {
			cfg["s"] = map[string]interface{}{"z": cx}
		}
	case 7:
		if pre {
			t.PS.Z = verif.Int("dflt.ps.z")
		}
		if conf {
			cfg["ps"] = map[string]interface{}{"z": cx}
		}
	case 8:
		if pre {
			t.LS = []vSelf{{Z: verif.Int("dflt.ls0.z")}}
		}
		if conf {
			cfg["ls"] = []interface{}{map[string]interface{}{"z": 1}, map[string]interface{}{"z": cx}}
		}
	case 9:
		if pre {
			t.Inl.Q = verif.Int("dflt.q")
		}
		if conf {
			cfg["q"] = cx
		}
	case 10:
		if pre {
			v := verif.Int("dflt.pi")
			t.PI = &v
		}
		if conf {
			cfg["pi"] = cx
		}
	case 11:
		if pre {
			v := verif.Uint("dflt.pu")
			t.PU = &v
		}
		if conf {
			cfg["pu"] = cy
		}
	case 12:
		if pre {
			if verif.Choice("dflt.req", 2) == 1 {
				t.Req = []int{}
			} else {
				t.Req = nil
			}
		}
		if conf {
			if verif.Choice("cfg.req", 2) == 1 {
				cfg["req"] = []interface{}{}
			} else {
				cfg["req"] = []interface{}{7}
			}
		}
	case 13:
		if pre {
			if verif.Choice("dflt.nz", 2) == 1 {
				t.NZ = map[string]int{}
			} else {
				t.NZ = map[string]int{"a": 1}
			}
		}
		if conf {
			cfg["nz"] = map[string]interface{}{"b": 2}
		}
	}
	cfg["unrelated"] = 1
	c, err := ucfg.NewFrom(cfg)
	verif.Assume(err == nil)
	// list-valued positions: the pre-filled elements are combined with the configured ones by the policy
	var uopts []ucfg.Option
	if where == 2 || where == 8 || where == 12 {
		uopts = polOpts(verif.Choice("policy", nPolicies))
	}
	var uerr error
	panicked := !verif.NoPanic("C04/nested: Unpack panics", func() { uerr = c.Unpack(&t, uopts...) })
	if panicked {
		return
	}
	if uerr == nil {
		verif.Reach("unpack succeeded")
		verif.Assert(t.valid(), "C04/nested: successful Unpack implies every reachable validator holds/where="+itoa(where))
	} else {
		verif.Reach("unpack failed")
	}
}

// ---- family 3: validator tags on inline slices / arrays / maps, on fixed-size arrays, and on
// primitive types that implement InitDefaults ----

type vPosInit int

var vPosInitDefault = 1

func (p *vPosInit) InitDefaults() { *p = vPosInit(vPosInitDefault) }

type vInlSlice struct {
	L []int `config:",inline" validate:"min=1, max=65535"`
}
type vInlArr struct {
	A [2]int `config:",inline" validate:"positive"`
}
type vInlDur struct {
	L []time.Duration `config:",inline" validate:"max=1m"`
}
type vInlStr struct {
	L []string `config:",inline" validate:"nonzero"`
}
type vSrv struct {
	Name  string `config:"name"`
	Ports []int  `config:",inline" validate:"min=1, max=65535"`
}
type vNested struct {
	Srv vSrv `config:"srv"`
}
type vArrNZ struct {
	A [2]int `config:"a" validate:"nonzero"`
}
type vArrReq struct {
	A [2]int `config:"a" validate:"required"`
}
type vInitPrim struct {
	X vPosInit `config:"x" validate:"positive"`
}
type vPtrDur struct {
	T *time.Duration   `config:"t" validate:"min=5"`
	N *time.Duration   `config:"n" validate:"max=-10"`
	L []*time.Duration `config:"l" validate:"min=1"`
}
type vInlMap struct {
	In map[string]int `config:",inline" validate:"nonzero"`
}

// H_C04_tags: err == nil implies the tag holds for what the target then contains.
func H_C04_tags() {
	p0, p1 := verif.Int64("p0"), verif.Int64("p1")
	inRange := func(v int) bool { return verif.And(v >= 1, v <= 65535) }
	which := verif.Choice("shape", 11)
	lbl := "C04/tags: successful Unpack implies the validator tag holds/shape=" + itoa(which)
	var uerr error
	ok := true
	panicked := !verif.NoPanic("C04/tags: Unpack panics/shape="+itoa(which), func() {
		switch which {
		case 0:
			c, err := ucfg.NewFrom([]interface{}{p0, p1})
			verif.Assume(err == nil)
			var t vInlSlice
			if uerr = c.Unpack(&t); uerr == nil {
				ok = len(t.L) == 2 && verif.And(inRange(t.L[0]), inRange(t.L[1]))
			}
		case 1:
			c, err := ucfg.NewFrom([]interface{}{p0, p1})
			verif.Assume(err == nil)
			var t vInlArr
			if uerr = c.Unpack(&t); uerr == nil {
				ok = verif.And(t.A[0] >= 0, t.A[1] >= 0)
			}
		case 2:
			s := verif.Uint16("seconds")
			c, err := ucfg.NewFrom([]interface{}{1, s})
			verif.Assume(err == nil)
			var t vInlDur
			if uerr = c.Unpack(&t); uerr == nil {
				ok = len(t.L) == 2 && verif.And(t.L[0] <= time.Minute, t.L[1] <= time.Minute)
			}
		case 3:
			l := []interface{}{}
			if verif.Choice("len", 2) == 1 {
				l = append(l, "s")
			}
			c, err := ucfg.NewFrom(l)
			verif.Assume(err == nil)
			var t vInlStr
			if uerr = c.Unpack(&t); uerr == nil {
				ok = len(t.L) > 0
			}
		case 4:
			c, err := ucfg.NewFrom(map[string]interface{}{"srv": map[string]interface{}{"name": "x", "0": p0, "1": p1}})
			verif.Assume(err == nil)
			var t vNested
			if uerr = c.Unpack(&t); uerr == nil {
				ok = len(t.Srv.Ports) == 2 && verif.And(inRange(t.Srv.Ports[0]), inRange(t.Srv.Ports[1]))
			}
		case 5, 6:
			in := map[string]interface{}{"other": 1}
			if verif.Choice("present", 2) == 1 {
				in["a"] = []interface{}{p0, p1}
			}
			c, err := ucfg.NewFrom(in)
			verif.Assume(err == nil)
			// a fixed-size array always has its elements: nonzero / required hold for it
			if which == 5 {
				var t vArrNZ
				uerr = c.Unpack(&t)
			} else {
				var t vArrReq
				uerr = c.Unpack(&t)
			}
		case 7:
			vPosInitDefault = verif.Int("initdefault")
			in := map[string]interface{}{"other": 1}
			if verif.Choice("present", 2) == 1 {
				in["x"] = p0
			}
			c, err := ucfg.NewFrom(in)
			verif.Assume(err == nil)
			var t vInitPrim
			if uerr = c.Unpack(&t); uerr == nil {
				ok = t.X >= 0
			}
		case 8:
			in := map[string]interface{}{}
			if verif.Choice("present", 2) == 1 {
				in["k"] = p0
			}
			c, err := ucfg.NewFrom(in)
			verif.Assume(err == nil)
			var t vInlMap
			if uerr = c.Unpack(&t); uerr == nil {
				ok = t.In == nil || len(t.In) > 0
			}
		case 10:
			// durations behind pointers, as defaults (absent setting, kept list element): bounds are seconds
			s0, s1 := verif.Uint16("dflt.t"), verif.Uint16("dflt.l1")
			d0, d1, d2 := time.Duration(s0)*time.Second, 20*time.Second, time.Duration(s1)*time.Millisecond
			c, err := ucfg.NewFrom(map[string]interface{}{"l": []interface{}{"10s"}})
			verif.Assume(err == nil)
			dn := -time.Duration(verif.Uint8("dflt.n")) * time.Second
			t := vPtrDur{T: &d0, N: &dn, L: []*time.Duration{&d1, &d2}}
			if uerr = c.Unpack(&t); uerr == nil {
				ok = t.T != nil && t.N != nil && len(t.L) == 2 && t.L[1] != nil &&
					verif.And(verif.And(*t.T >= 5*time.Second, *t.N <= -10*time.Second), *t.L[1] >= time.Second)
			}
		case 9:
			// pre-filled inline slice kept in front of the configured elements (append)
			c, err := ucfg.NewFrom([]interface{}{p1})
			verif.Assume(err == nil)
			t := vInlSlice{L: []int{int(p0)}}
			if uerr = c.Unpack(&t, ucfg.AppendValues); uerr == nil {
				ok = len(t.L) == 2 && verif.And(inRange(t.L[0]), inRange(t.L[1]))
			}
		}
	})
	if panicked {
		return
	}
	if uerr == nil {
		verif.Reach("tags: unpack succeeded")
		verif.Assert(ok, lbl)
	} else {
		verif.Reach("tags: unpack failed")
	}
}
