package h

// C09 Results never depend on map iteration order.
//
// Every operation is executed once under the engine's canonical map order and
// once with PermuteMaps on, where every map iteration inside go-ucfg (range
// over a map, reflect MapKeys) is a decision of the engine over all
// permutations of the keys: the outcomes must agree.

import (
	ucfg "github.com/elastic/go-ucfg"

	"vharness/verif"
)

type outcome struct {
	failed bool
	reason error
	class  error
	data   interface{}
}

func outcomeOf(data interface{}, err error) outcome {
	o := outcome{data: data}
	if err != nil {
		o.failed = true
		if ue, ok := err.(ucfg.Error); ok {
			o.reason, o.class = ue.Reason(), ue.Class()
			// the kind of error is the innermost reason (an Error may wrap another Error)
			for i := 0; i < 8; i++ {
				inner, ok := o.reason.(ucfg.Error)
				if !ok {
					break
				}
				o.reason = inner.Reason()
			}
		}
	}
	return o
}

func (a outcome) same(b outcome) bool {
	if a.failed != b.failed {
		return false
	}
	if a.failed {
		return a.reason == b.reason && a.class == b.class
	}
	return verif.Eq(a.data, b.data)
}

func c09Inputs() (map[string]interface{}, []ucfg.Option) {
	x := verif.Uint64("x")
	y := verif.Uint64("y")
	sep := []ucfg.Option{ucfg.PathSep(".")}
	switch verif.Choice("input", 9) {
	case 0:
		return map[string]interface{}{"a": map[string]interface{}{"b": x}, "a.b": y}, sep
	case 1:
		return map[string]interface{}{"a": x, "a.b": y}, sep
	case 2:
		return map[string]interface{}{"b": map[string]interface{}{"c.1": x}, "b.c.0": y}, sep
	case 3:
		return map[string]interface{}{"a.b": x, "a.c": y, "a": map[string]interface{}{"d": x}}, sep
	case 4:
		return map[string]interface{}{"l.1": x, "l.0": y, "l": []interface{}{nil, nil, y}}, sep
	case 5:
		return map[string]interface{}{"a": map[string]interface{}{"b": map[string]interface{}{"c": x}}, "a.b": map[string]interface{}{"d": y}, "a.b.e": x}, sep
	case 6:
		return map[string]interface{}{"a": nil, "a.b": x, "c": y}, sep
	case 7:
		return map[string]interface{}{"0": x, "1": y, "k": x}, nil
	default:
		return map[string]interface{}{"p": x, "q": map[string]interface{}{"r": y, "s": x}, "t": []interface{}{x, y}}, nil
	}
}

// H_C09_newfrom: creating a config from inputs whose keys overlap after dotted expansion.
func H_C09_newfrom() {
	in, opts := c09Inputs()
	run := func() outcome {
		c, err := ucfg.NewFrom(in, opts...)
		if err != nil {
			return outcomeOf(nil, err)
		}
		d, err := unpackTree(c, opts...)
		return outcomeOf(d, err)
	}
	canon := run()
	verif.PermuteMaps(true)
	perm := run()
	verif.PermuteMaps(false)
	verif.Reach("compared with canonical order")
	verif.Assert(canon.same(perm), "C09/NewFrom outcome independent of map order")
}

// H_C09_merge: merging given configs.
func H_C09_merge() {
	sp := genSpec{depth: 1, keys: []string{"a", "b"}, maxList: 1, prims: 1}
	if verif.Tier() > 0 {
		sp.keys = []string{"a", "b", "c"}
	}
	a := nDict().set("k", genNode("A.k", sp, true)).set("s", nUint(verif.Uint64("A.s")))
	b := nDict().set("k", genNode("B.k", sp, true)).set("t", nUint(verif.Uint64("B.t")))
	pol := verif.Choice("policy", nPolicies)
	run := func() outcome {
		c, err := ucfg.NewFrom(a.toGo())
		if err != nil {
			return outcomeOf(nil, err)
		}
		if err := c.Merge(b.toGo(), polOpts(pol)...); err != nil {
			return outcomeOf(nil, err)
		}
		d, err := unpackTree(c)
		return outcomeOf(d, err)
	}
	canon := run()
	// merges iterate many maps: one permuted iteration at a time (every site, every order)
	verif.PermuteOneMap()
	perm := run()
	verif.PermuteMaps(false)
	verif.Reach("compared with canonical order")
	verif.Assert(canon.same(perm), "C09/Merge outcome independent of map order")
}

type c09Target struct {
	A string `config:"a"`
	B string `config:"b"`
	C string `config:"c"`
}

// H_C09_unpack: unpacking a config whose settings reference each other, into a map and a struct.
func H_C09_unpack() {
	targets := []string{"a", "b", "c", "zz"}
	g := refGraph{}
	g["a"] = genRefExpr("a", targets, "va")
	g["b"] = genRefExpr("b", targets, "vb")
	g["c"] = refExpr{form: 0, lit: "vc"}
	opts := []ucfg.Option{ucfg.VarExp, ucfg.PathSep(".")}
	in := map[string]interface{}{}
	for k, e := range g {
		in[k] = e.text()
	}
	c, err := ucfg.NewFrom(in, opts...)
	verif.Assume(err == nil)
	asStruct := verif.Choice("target", 2) == 1
	run := func() outcome {
		if asStruct {
			var t c09Target
			err := c.Unpack(&t, opts...)
			return outcomeOf([]interface{}{t.A, t.B, t.C}, err)
		}
		var m map[string]interface{}
		err := c.Unpack(&m, opts...)
		return outcomeOf(m, err)
	}
	canon := run()
	verif.PermuteMaps(true)
	perm := run()
	verif.PermuteMaps(false)
	verif.Reach("compared with canonical order")
	verif.Assert(canon.same(perm), "C09/Unpack outcome independent of map order")
}
