package h

// C09 Results never depend on map iteration order.
//
// Every operation is executed once under the engine's canonical map order and
// once with PermuteMaps on, where every map iteration inside go-ucfg (range
// over a map, reflect MapKeys) is a decision of the engine over all
// permutations of the keys: the outcomes must agree.

import (
	ucfg "github.com/elastic/go-ucfg"

	"vharness/verif"
)

type outcome struct {
	failed bool
	reason error
	class  error
	data   interface{}
}

func outcomeOf(data interface{}, err error) outcome {
	o := outcome{data: data}
	if err != nil {
		o.failed = true
		if ue, ok := err.(ucfg.Error); ok {
			o.reason, o.class = ue.Reason(), ue.Class()
			// the kind of error is the innermost reason (an Error may wrap another Error)
			for i := 0; i < 8; i++ {
				inner, ok := o.reason.(ucfg.Error)
				if !ok {
					break
				}
				o.reason = inner.Reason()
			}
		}
	}
	return o
}

func (a outcome) same(b outcome) bool {
	if a.failed != b.failed {
		return false
	}
	if a.failed {
		return a.reason == b.reason && a.class == b.class
	}
	return verif.Eq(a.data, b.data)
}

func c09Inputs() (map[string]interface{}, []ucfg.Option) {
	x := verif.Uint64("x")
	y := verif.Uint64("y")
	sep := []ucfg.Option{ucfg.PathSep(".")}
	switch verif.Choice("input", 12) {
	case 10:
		// a name and its index 0 / its sub-key, each nil, a number or an object
		val := func(name string) interface{} {
			switch verif.Choice(name, 3) {
			case 0:
				return nil
			case 1:
				return x
			}
			return map[string]interface{}{"k": y}
		}
		return map[string]interface{}{"a": val("a"), "a.0": val("a.0"), "b": val("b"), "b.k": val("b.k")}, sep
	case 11:
		// several faulty entries with different kinds of error
		in := map[string]interface{}{"ok": x}
		if verif.Choice("fault.dup", 2) == 1 {
			in["a"] = x
			in["a.b"] = y
		}
		if verif.Choice("fault.type", 2) == 1 {
			in["c"] = make(chan int)
		}
		if verif.Choice("fault.key", 2) == 1 {
			in["d"] = map[int]interface{}{1: x}
		}
		if verif.Choice("fault.neg", 2) == 1 {
			in["e.f"] = x
			in["e"] = []interface{}{y}
		}
		return in, sep
	case 9:
		// one object spelled up to three times (nested, "a.b", "a.b.x"), every spelling one of
		// several shapes: more than one conflict, of different kinds, may sit below the same object
		shapes := func(name string) interface{} {
			switch verif.Choice(name+".shape", 6) {
			case 0:
				return nil
			case 1:
				return x
			case 2:
				return map[string]interface{}{"x": x}
			case 3:
				return map[string]interface{}{"y": map[string]interface{}{"q": y}}
			case 4:
				return map[string]interface{}{"x": x, "y": y}
			default:
				return map[string]interface{}{"x": y, "y": map[string]interface{}{"q": x}}
			}
		}
		in := map[string]interface{}{}
		if v := shapes("a"); v != nil {
			in["a"] = map[string]interface{}{"b": v}
		}
		if v := shapes("a.b"); v != nil {
			in["a.b"] = v
		}
		if v := shapes("a.b.x"); v != nil {
			in["a.b.x"] = v
		}
		return in, sep
	case 0:
		return map[string]interface{}{"a": map[string]interface{}{"b": x}, "a.b": y}, sep
	case 1:
		return map[string]interface{}{"a": x, "a.b": y}, sep
	case 2:
		return map[string]interface{}{"b": map[string]interface{}{"c.1": x}, "b.c.0": y}, sep
	case 3:
		return map[string]interface{}{"a.b": x, "a.c": y, "a": map[string]interface{}{"d": x}}, sep
	case 4:
		return map[string]interface{}{"l.1": x, "l.0": y, "l": []interface{}{nil, nil, y}}, sep
	case 5:
		return map[string]interface{}{"a": map[string]interface{}{"b": map[string]interface{}{"c": x}}, "a.b": map[string]interface{}{"d": y}, "a.b.e": x}, sep
	case 6:
		return map[string]interface{}{"a": nil, "a.b": x, "c": y}, sep
	case 7:
		return map[string]interface{}{"0": x, "1": y, "k": x}, nil
	default:
		return map[string]interface{}{"p": x, "q": map[string]interface{}{"r": y, "s": x}, "t": []interface{}{x, y}}, nil
	}
}

// H_C09_newfrom: creating a config from inputs whose keys overlap after dotted expansion.
// ifaceKeyed converts the generic maps of an input into map[interface{}]interface{} (what the YAML
// decoder produces).
func ifaceKeyed(v interface{}) interface{} {
	switch w := v.(type) {
	case map[string]interface{}:
		m := map[interface{}]interface{}{}
		for k, e := range w {
			m[k] = ifaceKeyed(e)
		}
		return m
	case []interface{}:
		l := make([]interface{}, len(w))
		for i, e := range w {
			l[i] = ifaceKeyed(e)
		}
		return l
	}
	return v
}

func H_C09_newfrom() {
	sin, opts := c09Inputs()
	var in interface{} = sin
	// (quick: the generated family - recognisable by its single top-level key prefix - stays string-keyed)
	_, generated := sin["a.b.x"]
	if (verif.Tier() > 0 || !generated) && verif.Choice("interface-keyed maps", 2) == 1 {
		in = ifaceKeyed(sin)
	}
	run := func() outcome {
		c, err := ucfg.NewFrom(in, opts...)
		if err != nil {
			return outcomeOf(nil, err)
		}
		d, err := unpackTree(c, opts...)
		return outcomeOf(d, err)
	}
	canon := run()
	verif.PermuteMaps(true)
	perm := run()
	verif.PermuteMaps(false)
	verif.Reach("compared with canonical order")
	verif.Assert(canon.same(perm), "C09/NewFrom outcome independent of map order")
}

// H_C09_merge: merging given configs.
func H_C09_merge() {
	sp := genSpec{depth: 1, keys: []string{"a", "b"}, maxList: 1, prims: 1}
	if verif.Tier() > 0 {
		sp.keys = []string{"a", "b", "c"}
	}
	a := nDict().set("k", genNode("A.k", sp, true)).set("s", nUint(verif.Uint64("A.s")))
	b := nDict().set("k", genNode("B.k", sp, true)).set("t", nUint(verif.Uint64("B.t")))
	pol := verif.Choice("policy", nPolicies)
	run := func() outcome {
		c, err := ucfg.NewFrom(a.toGo())
		if err != nil {
			return outcomeOf(nil, err)
		}
		if err := c.Merge(b.toGo(), polOpts(pol)...); err != nil {
			return outcomeOf(nil, err)
		}
		d, err := unpackTree(c)
		return outcomeOf(d, err)
	}
	canon := run()
	// merges iterate many maps: one permuted iteration at a time (every site, every order)
	verif.PermuteOneMap()
	perm := run()
	verif.PermuteMaps(false)
	verif.Reach("compared with canonical order")
	verif.Assert(canon.same(perm), "C09/Merge outcome independent of map order")
}

type c09Target struct {
	A string `config:"a"`
	B string `config:"b"`
	C string `config:"c"`
}

// H_C09_unpack: unpacking a config whose settings reference each other, into a map and a struct.
func H_C09_unpack() {
	targets := []string{"a", "b", "zz"}
	if verif.Tier() > 0 {
		targets = []string{"a", "b", "c", "zz"}
	}
	g := refGraph{}
	g["a"] = genRefExpr("a", targets, "va")
	g["b"] = genRefExpr("b", targets, "vb")
	if verif.Choice("third setting", 2) == 1 { // dictionaries of two and of three settings
		g["c"] = refExpr{form: 0, lit: "vc"}
	}
	opts := []ucfg.Option{ucfg.VarExp, ucfg.PathSep(".")}
	in := map[string]interface{}{}
	for k, e := range g {
		in[k] = e.text()
	}
	c, err := ucfg.NewFrom(in, opts...)
	verif.Assume(err == nil)
	asStruct := verif.Choice("target", 2) == 1
	run := func() outcome {
		if asStruct {
			var t c09Target
			err := c.Unpack(&t, opts...)
			return outcomeOf([]interface{}{t.A, t.B, t.C}, err)
		}
		var m map[string]interface{}
		err := c.Unpack(&m, opts...)
		return outcomeOf(m, err)
	}
	canon := run()
	verif.PermuteMaps(true)
	perm := run()
	verif.PermuteMaps(false)
	verif.Reach("compared with canonical order")
	verif.Assert(canon.same(perm), "C09/Unpack outcome independent of map order")
}

// H_C09_merge_refs: merging into / from configs whose settings reference each other
// (dictionaries of exactly two settings included).
func H_C09_merge_refs() {
	opts := []ucfg.Option{ucfg.VarExp, ucfg.PathSep(".")}
	x := verif.Uint64("x")
	side := func(name string) map[string]interface{} {
		m := map[string]interface{}{}
		for _, k := range []string{"a", "b"} {
			switch verif.Choice(name+"."+k, 5) {
			case 0:
			case 1:
				m[k] = x
			case 2:
				m[k] = map[string]interface{}{name + k: x}
			case 3:
				m[k] = "${" + map[string]string{"a": "b", "b": "a"}[k] + "}"
			case 4:
				m[k] = "${nobody}"
			}
		}
		return m
	}
	dstIn, srcIn := side("d"), side("s")
	run := func() outcome {
		c, err := ucfg.NewFrom(dstIn, opts...)
		if err != nil {
			return outcomeOf(nil, err)
		}
		if err := c.Merge(srcIn, opts...); err != nil {
			return outcomeOf(nil, err)
		}
		var m map[string]interface{}
		err = c.Unpack(&m, opts...)
		return outcomeOf(m, err)
	}
	canon := run()
	verif.PermuteMaps(true)
	perm := run()
	verif.PermuteMaps(false)
	verif.Reach("compared with canonical order")
	verif.Assert(canon.same(perm), "C09/Merge of configs with references: outcome independent of map order")
}

type c09Inner struct {
	X int `config:"x" validate:"nonzero"`
	Y int `config:"y" validate:"positive"`
}

type c09Prefilled struct {
	M map[string]c09Inner  `config:"m"`
	P map[string]*c09Inner `config:"p"`
	Z int                  `config:"z"`
}

// H_C09_prefilled: a target whose pre-filled maps hold more than one invalid entry
// (entries the configuration does not mention are validated like every other default).
func H_C09_prefilled() {
	x0, y0 := int(verif.Int8("p.x")), int(verif.Int8("p.y"))
	x1, y1 := int(verif.Int8("q.x")), int(verif.Int8("q.y"))
	in := map[string]interface{}{"z": 1}
	switch verif.Choice("mention", 3) {
	case 1:
		in["m"] = map[string]interface{}{"other": map[string]interface{}{"x": 1, "y": 1}}
	case 2:
		in["p"] = map[string]interface{}{"other": map[string]interface{}{"x": 1, "y": 1}}
	}
	c, err := ucfg.NewFrom(in)
	verif.Assume(err == nil)
	run := func() outcome {
		t := c09Prefilled{
			M: map[string]c09Inner{"p": {X: x0, Y: y0}, "q": {X: x1, Y: y1}},
			P: map[string]*c09Inner{"p": {X: x0, Y: y0}, "q": {X: x1, Y: y1}},
		}
		err := c.Unpack(&t)
		return outcomeOf(nil, err)
	}
	canon := run()
	verif.PermuteMaps(true)
	perm := run()
	verif.PermuteMaps(false)
	verif.Reach("compared with canonical order")
	verif.Assert(canon.same(perm), "C09/Unpack into a pre-filled map: outcome independent of map order")
}

// innermostReason: the kind of a ucfg error (an Error may wrap another Error).
func innermostReason(e ucfg.Error) error {
	r := e.Reason()
	for i := 0; i < 8; i++ {
		inner, ok := r.(ucfg.Error)
		if !ok {
			break
		}
		r = inner.Reason()
	}
	return r
}
