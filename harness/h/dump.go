package h

import (
	"fmt"
	"sort"
	"strconv"
	"strings"
)

// Dump renders a generic tree (what Unpack into interface{} yields)
// deterministically, without package reflect, identically in the engine and
// natively.
func Dump(v interface{}) string {
	var sb strings.Builder
	dump(&sb, v)
	return sb.String()
}

func dump(sb *strings.Builder, v interface{}) {
	switch x := v.(type) {
	case nil:
		sb.WriteString("nil")
	case bool:
		if x {
			sb.WriteString("true")
		} else {
			sb.WriteString("false")
		}
	case int:
		sb.WriteString("i" + strconv.FormatInt(int64(x), 10))
	case int64:
		sb.WriteString("i" + strconv.FormatInt(x, 10))
	case uint64:
		sb.WriteString("u" + strconv.FormatUint(x, 10))
	case uint:
		sb.WriteString("u" + strconv.FormatUint(uint64(x), 10))
	case float64:
		sb.WriteString("f" + strconv.FormatFloat(x, 'g', -1, 64))
	case string:
		sb.WriteString(strconv.Quote(x))
	case []interface{}:
		sb.WriteByte('[')
		for i, e := range x {
			if i > 0 {
				sb.WriteByte(',')
			}
			dump(sb, e)
		}
		sb.WriteByte(']')
	case map[string]interface{}:
		keys := make([]string, 0, len(x))
		for k := range x {
			keys = append(keys, k)
		}
		sort.Strings(keys)
		sb.WriteByte('{')
		for i, k := range keys {
			if i > 0 {
				sb.WriteByte(',')
			}
			sb.WriteString(k)
			sb.WriteByte(':')
			dump(sb, x[k])
		}
		sb.WriteByte('}')
	case map[interface{}]interface{}:
		sb.WriteString("{?iface-keyed " + strconv.Itoa(len(x)) + "}")
	case error:
		sb.WriteString("error(" + x.Error() + ")")
	case []string:
		sb.WriteString(fmt.Sprintf("%q", x))
	default:
		sb.WriteString(fmt.Sprintf("<%T>", v))
	}
}

func errStr(err error) string {
	if err == nil {
		return "ok"
	}
	return "ERR(" + err.Error() + ")"
}
