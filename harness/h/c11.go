package h

// C11 Reads are pure, so concurrent readers are safe.
//
// Decision: no path of any read operation performs a non-atomic store to
// memory reachable from the config (or to go-ucfg package state). Operations
// that only read shared memory and write only memory they allocated
// themselves cannot race and cannot influence each other under the Go memory
// model, which settles "all interleavings" by non-interference.

import (
	ucfg "github.com/elastic/go-ucfg"
	"github.com/elastic/go-ucfg/diff"
	"github.com/elastic/go-ucfg/parse"

	"vharness/verif"
)

type c11Target struct {
	A   string                 `config:"a"`
	N   uint64                 `config:"n"`
	Sub *ucfg.Config           `config:"o"`
	L   []interface{}          `config:"l"`
	R   map[string]interface{} `config:"robj"`
	Any interface{}            `config:"rl"`
}

func c11Config(opts *[]ucfg.Option) *ucfg.Config {
	resolver := func(name string) (string, parse.Config, error) {
		switch name {
		case "obj":
			return "{k: v, l: [1, 2]}", parse.DefaultConfig, nil
		case "lst":
			return "[1, two, {k: v}]", parse.DefaultConfig, nil
		}
		return "", parse.DefaultConfig, ucfg.ErrMissing
	}
	*opts = []ucfg.Option{ucfg.PathSep("."), ucfg.VarExp, ucfg.Resolve(resolver)}
	// the configuration may have been built WITHOUT a path separator while its readers use one
	bopts := *opts
	if verif.Choice("built-without-pathsep", 2) == 1 {
		bopts = bopts[1:]
	}
	u := verif.Uint64("u")
	c, err := ucfg.NewFrom(map[string]interface{}{
		"sel": "a", "nested": "${${sel}}", "nested2": "${o.${selk}}", "selk": "k",
		"a": "text", "n": 7, "pu": u, "o": map[string]interface{}{"k": "deep", "r": "${a}"}, "l": []interface{}{u, "${n}", map[string]interface{}{"x": "${o.k}"}},
		"ra": "${a}", "rs": "pre-${a}-${n}", "robj": "${obj}", "rl": "${lst}", "rd": "${missing:dflt}", "ro": "${o}",
	}, bopts...)
	verif.Assume(err == nil)
	return c
}

// H_C11_np_reads: every read operation under the write monitor.
func H_C11_np_reads() {
	var opts []ucfg.Option
	c := c11Config(&opts)
	op := verif.Choice("op", 21)
	other := ucfg.New()
	verif.ReadOnlyBegin("C11/read operation writes to the config", c)
	switch op {
	case 0:
		var m map[string]interface{}
		c.Unpack(&m, opts...)
	case 1:
		var t c11Target
		c.Unpack(&t, opts...)
	case 2:
		c.String("rs", -1, opts...)
		c.String("ra", -1, opts...)
		c.String("rd", -1, opts...)
	case 3:
		c.Uint("n", -1, opts...)
		c.Int("l", 1, opts...)
		c.Float("n", -1, opts...)
		c.Bool("a", -1, opts...)
	case 4:
		c.Child("o", -1, opts...)
		c.Child("robj", -1, opts...)
		c.Child("ro", -1, opts...)
		c.Child("l", 2, opts...)
	case 5:
		c.Has("o.k", -1, opts...)
		c.Has("robj.k", -1, opts...)
		c.Has("l.2.x", -1, opts...)
		c.Has("zz", -1, opts...)
	case 6:
		c.CountField("l", opts...)
		c.CountField("rl", opts...)
		c.CountField("", opts...)
	case 7:
		c.GetFields()
		c.HasField("a")
		c.IsDict()
		c.IsArray()
	case 8:
		c.Path(".")
		c.PathOf("x", ".")
		c.Parent()
		ch, err := c.Child("o", -1, opts...)
		if err == nil {
			ch.Path(".")
			ch.Parent()
		}
	case 9:
		c.FlattenedKeys(opts...)
	case 10:
		other.Merge(c, opts...)
	case 11:
		other.Merge(map[string]interface{}{"k": c, "l": []interface{}{c}}, opts...)
	case 12:
		diff.CompareConfigs(c, c, opts...)
	case 13:
		ch, err := c.Child("o", -1, opts...)
		if err == nil {
			var m map[string]interface{}
			ch.Unpack(&m, opts...)
			ch.String("r", -1, opts...)
		}
	case 14:
		var l []interface{}
		ch, err := c.Child("l", -1, opts...)
		if err == nil {
			ch.Unpack(&l, opts...)
		}
	case 16:
		// merge source embedded in a map whose dotted keys extend into the same object
		other.Merge(map[string]interface{}{"k": c, "k.added": 1, "k.o.added": 2, "l": []interface{}{c}, "l.0.added": 3}, opts...)
	case 17:
		// merge source captured in a struct field, next to a field whose dotted name reaches into it
		other.Merge(struct {
			K *ucfg.Config `config:"k"`
			X int          `config:"k.added"`
			Y int          `config:"k.o.added"`
		}{c, 1, 2}, opts...)
	case 18:
		ch, err := c.Child("o", -1, opts...)
		if err == nil {
			other.Merge(map[string]interface{}{"k": ch, "k.added": 1}, opts...)
			other.Merge(ch, opts...)
		}
	case 19:
		// merge source with a MetaData option on the merge (labels the destination's copies)
		other.Merge(c, append(append([]ucfg.Option{}, opts...), ucfg.MetaData(ucfg.Meta{Source: "merged.yml"}))...)
		ch, err := c.Child("o", -1, opts...)
		if err == nil {
			other.Merge(ch, ucfg.MetaData(ucfg.Meta{Source: "child.yml"}))
		}
	case 20:
		// computed variable names, read with and without a separator
		c.String("nested", -1, opts...)
		c.String("nested2", -1, opts...)
		c.String("nested", -1, ucfg.VarExp)
		c.String("nested2", -1, ucfg.VarExp, ucfg.PathSep("/"))
	case 15:
		c.Remove("zz", -1, opts...) // removing something that does not exist changes nothing
		c.Has("l", 7, opts...)
	}
	verif.ReadOnlyEnd()
	verif.Reach("monitor: read operation finished")
}

// H_C11_same_result: each read obtains the same result when it is repeated after other reads
// (follows from purity; asserted through the public observers).
func H_C11_same_result() {
	var opts []ucfg.Option
	c := c11Config(&opts)
	var m1, m2 map[string]interface{}
	e1 := c.Unpack(&m1, opts...)
	k1 := c.FlattenedKeys(opts...)
	s1, se1 := c.String("rs", -1, opts...)
	var t c11Target
	c.Unpack(&t, opts...)
	c.Child("robj", -1, opts...)
	other := ucfg.New()
	other.Merge(c, opts...)
	e2 := c.Unpack(&m2, opts...)
	k2 := c.FlattenedKeys(opts...)
	s2, se2 := c.String("rs", -1, opts...)
	verif.Reach("reads repeated")
	verif.Assert((e1 == nil) == (e2 == nil) && verif.Eq(m1, m2), "C11/Unpack yields the same result after other reads")
	verif.Assert(eqStrings(k1, k2), "C11/FlattenedKeys yields the same result after other reads")
	verif.Assert((se1 == nil) == (se2 == nil) && (se1 != nil || verif.Eq(s1, s2)), "C11/String yields the same result after other reads")
}
