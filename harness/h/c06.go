package h

// C06 Struct -> Config -> struct is the identity.

import (
	"math"
	"regexp"
	"time"

	ucfg "github.com/elastic/go-ucfg"

	"vharness/verif"
)

type r1in struct {
	X int32  `config:"x"`
	S string `config:"s"`
}

type r1 struct {
	A    int64  `config:"alpha"`
	B    uint32 `config:"b.c"`
	C    string
	D    bool                     `config:"d"`
	E    float64                  `config:"e"`
	F    float32                  `config:"f"`
	Ign  int                      `config:",ignore"`
	In   r1in                     `config:",inline"`
	N    r1in                     `config:"nested"`
	P    *r1in                    `config:"p"`
	L    []int16                  `config:"l"`
	Arr  [2]uint8                 `config:"arr"`
	AP   [2]*r1in                 `config:"ap"`
	M    map[string]int32         `config:"m"`
	MS   map[string]r1in          `config:"ms"`
	LS   []r1in                   `config:"ls"`
	U    uint64                   `config:"u"`
	I8   int8                     `config:"i8"`
	Dur  time.Duration            `config:"dur"`
	Re   *regexp.Regexp           `config:"re"`
	PP   **int                    `config:"pp"`
	LL   [][]uint8                `config:"ll"`
	LP   []*[]int16               `config:"lp"`
	MP   map[string]*[]int16      `config:"mp"`
	LM   []*map[string]int32      `config:"lm"`
	PM   *map[string]int32        `config:"pm"`
	DL   []time.Duration          `config:"dl"`
	DA   [2]time.Duration         `config:"da"`
	DM   map[string]time.Duration `config:"dm"`
	priv int
}

var c06Durations = []time.Duration{0, 1, 1500 * time.Millisecond, time.Hour, -2 * time.Minute, 1<<63 - 1}
var c06Regexps = []string{"", "^a.*$", `\d+\.\$`, "[{,}]"}

func symStr(name string, n int) string {
	// any byte except that strings are kept valid UTF-8 by restricting to ASCII
	s := verif.Bytes(name, n)
	for i := 0; i < n; i++ {
		verif.Assume(s[i] < 0x80)
	}
	return s
}

func symIn1(name string) r1in {
	return r1in{X: verif.Int32(name + ".x"), S: symStr(name+".s", 1)}
}

func eqIn(a, b r1in) bool { return verif.And(a.X == b.X, a.S == b.S) }

// H_C06_roundtrip: NewFrom(v) then Unpack into a zero value reproduces v.
func H_C06_roundtrip() {
	var v r1
	v.A, v.B, v.D = verif.Int64("a"), verif.Uint32("b"), verif.Bool("d")
	v.C = symStr("c", 2)
	v.E, v.F = 1.5, -0.25
	v.Ign = 77
	v.In = symIn1("in")
	v.N = symIn1("n")
	v.U = verif.Uint64("u")
	v.I8 = verif.Int8("i8")
	v.Arr = [2]uint8{verif.Uint8("arr0"), verif.Uint8("arr1")}
	v.Dur = time.Second
	v.Re = regexp.MustCompile("x")
	// one field group is varied per path (keeps the path count linear)
	switch verif.Choice("vary", 16) {
	case 12:
		// pointers to slices as elements of slices and maps
		l0 := []int16{verif.Int16("lp0")}
		l1 := []int16{}
		v.LP = []*[]int16{&l0, &l1}
		v.MP = map[string]*[]int16{"k": &l0}
	case 13:
		// pointers to maps as elements / behind a field
		m0 := map[string]int32{"k": verif.Int32("lm0")}
		v.LM = []*map[string]int32{&m0}
	case 14:
		m0 := map[string]int32{"k": verif.Int32("pm0")}
		v.PM = &m0
	case 15:
		// extreme floats of both sizes (concrete: the boundary values themselves)
		v.F = []float32{math.MaxFloat32, -math.MaxFloat32, math.SmallestNonzeroFloat32, 0.1, 16777217, -0.0}[verif.Choice("f32", 6)]
		v.E = []float64{math.MaxFloat64, -math.MaxFloat64, math.SmallestNonzeroFloat64, 0.1, math.MaxFloat32, 9007199254740993}[verif.Choice("f64", 6)]
	case 0:
	case 9:
		v.Dur = c06Durations[verif.Choice("dur", len(c06Durations))]
		// durations as elements of slices, arrays and maps
		v.DL = []time.Duration{v.Dur, 250 * time.Millisecond}
		v.DA = [2]time.Duration{time.Nanosecond, v.Dur}
		v.DM = map[string]time.Duration{"k": v.Dur}
	case 10:
		v.Re = regexp.MustCompile(c06Regexps[verif.Choice("re", len(c06Regexps))])
	case 11:
		v.E = verif.Float64("e")
		v.F = verif.Float32("f")
		verif.Assume(verif.Not(verif.IsNaN(v.E)))
		verif.Assume(verif.Not(verif.IsNaN(float64(v.F))))
	case 1:
		p := symIn1("p")
		v.P = &p
	case 2:
		switch verif.Choice("l", 3) {
		case 0:
			v.L = []int16{}
		case 1:
			v.L = []int16{verif.Int16("l0")}
		case 2:
			v.L = []int16{verif.Int16("l0"), verif.Int16("l1")}
		}
	case 3:
		a, b := symIn1("ap0"), symIn1("ap1")
		v.AP = [2]*r1in{&a, &b}
	case 4:
		switch verif.Choice("m", 3) {
		case 0:
			v.M = map[string]int32{}
		case 1:
			v.M = map[string]int32{"k": verif.Int32("m.k")}
		case 2:
			v.M = map[string]int32{"k": verif.Int32("m.k"), "j": verif.Int32("m.j")}
		}
	case 5:
		v.MS = map[string]r1in{"k": symIn1("ms.k")}
	case 6:
		v.LS = []r1in{symIn1("ls0"), symIn1("ls1")}
	case 7:
		i := verif.Int("pp")
		pi := &i
		v.PP = &pi
	case 8:
		v.LL = [][]uint8{{verif.Uint8("ll00")}, {}, {verif.Uint8("ll20"), verif.Uint8("ll21")}}
	}
	// AP holds nil pointers unless varied: "nil pointers stored as elements of lists" are not claimed
	if v.AP[0] == nil {
		a, b := r1in{}, r1in{}
		v.AP = [2]*r1in{&a, &b}
	}
	c, err := ucfg.NewFrom(v)
	verif.Assert(err == nil, "C06/struct accepted by NewFrom")
	if err != nil {
		return
	}
	var z r1
	err = c.Unpack(&z)
	verif.Assert(err == nil, "C06/config unpacks into the same type")
	if err != nil {
		return
	}
	verif.Reach("round trip compared")
	verif.Assert(verif.And(verif.And(z.A == v.A, z.B == v.B), verif.And(z.C == v.C, z.D == v.D)), "C06/renamed, dotted and untagged scalar fields")
	verif.Assert(verif.And(z.E == v.E, z.F == v.F), "C06/floats")
	verif.Assert(z.Ign == 0, "C06/ignored field is not transported")
	verif.Assert(verif.And(eqIn(z.In, v.In), eqIn(z.N, v.N)), "C06/inline and nested structs")
	verif.Assert(verif.And(z.U == v.U, z.I8 == v.I8), "C06/extreme numbers")
	verif.Assert(verif.And(z.Arr[0] == v.Arr[0], z.Arr[1] == v.Arr[1]), "C06/array")
	verif.Assert(z.Dur == v.Dur, "C06/duration")
	verif.Assert(len(z.DL) == len(v.DL) && z.DA == v.DA && len(z.DM) == len(v.DM), "C06/durations in collections: sizes and array")
	for i := range v.DL {
		if i < len(z.DL) {
			verif.Assert(z.DL[i] == v.DL[i], "C06/duration as slice element")
		}
	}
	for k, e := range v.DM {
		verif.Assert(z.DM[k] == e, "C06/duration as map value")
	}
	verif.Assert(z.Re != nil && z.Re.String() == v.Re.String(), "C06/regular expression")
	if v.P != nil {
		verif.Assert(z.P != nil && eqIn(*z.P, *v.P), "C06/pointer to struct")
	} else {
		verif.Assert(z.P == nil, "C06/nil pointer stays nil")
	}
	verif.Assert(len(z.L) == len(v.L), "C06/slice length (nil and empty equal)")
	for i := range v.L {
		if i < len(z.L) {
			verif.Assert(z.L[i] == v.L[i], "C06/slice element")
		}
	}
	verif.Assert(z.AP[0] != nil && z.AP[1] != nil && eqIn(*z.AP[0], *v.AP[0]) && eqIn(*z.AP[1], *v.AP[1]), "C06/array of pointers to structs")
	verif.Assert(len(z.M) == len(v.M), "C06/map size (nil and empty equal)")
	for k, e := range v.M {
		verif.Assert(z.M[k] == e, "C06/map entry")
	}
	verif.Assert(len(z.MS) == len(v.MS), "C06/map of structs size")
	for k, e := range v.MS {
		verif.Assert(eqIn(z.MS[k], e), "C06/map of structs entry")
	}
	verif.Assert(len(z.LS) == len(v.LS), "C06/slice of structs length")
	for i := range v.LS {
		if i < len(z.LS) {
			verif.Assert(eqIn(z.LS[i], v.LS[i]), "C06/slice of structs element")
		}
	}
	if v.PP != nil {
		verif.Assert(z.PP != nil && *z.PP != nil && **z.PP == **v.PP, "C06/pointer to pointer")
	}
	verif.Assert(len(z.LP) == len(v.LP) && len(z.MP) == len(v.MP), "C06/pointers to slices as elements: sizes")
	for i := range v.LP {
		if i < len(z.LP) {
			verif.Assert(z.LP[i] != nil && len(*z.LP[i]) == len(*v.LP[i]), "C06/pointer to slice as slice element")
			if z.LP[i] != nil && len(*z.LP[i]) == 1 && len(*v.LP[i]) == 1 {
				verif.Assert((*z.LP[i])[0] == (*v.LP[i])[0], "C06/pointer to slice as slice element: content")
			}
		}
	}
	for k, e := range v.MP {
		verif.Assert(z.MP[k] != nil && len(*z.MP[k]) == len(*e), "C06/pointer to slice as map value")
	}
	verif.Assert(len(z.LM) == len(v.LM), "C06/pointers to maps as elements: size")
	for i := range v.LM {
		if i < len(z.LM) {
			verif.Assert(z.LM[i] != nil && verif.Eq((*z.LM[i])["k"], (*v.LM[i])["k"]), "C06/pointer to map as slice element")
		}
	}
	if v.PM != nil {
		verif.Assert(z.PM != nil && verif.Eq((*z.PM)["k"], (*v.PM)["k"]), "C06/pointer to map field")
	}
	verif.Assert(len(z.LL) == len(v.LL), "C06/nested slices length")
	for i := range v.LL {
		if i < len(z.LL) {
			verif.Assert(len(z.LL[i]) == len(v.LL[i]), "C06/nested slice inner length")
			for j := range v.LL[i] {
				if j < len(z.LL[i]) {
					verif.Assert(z.LL[i][j] == v.LL[i][j], "C06/nested slice element")
				}
			}
		}
	}
}

type r2 struct {
	Named string            `config:"named"`
	Rest  map[string]string `config:",inline"`
}

// H_C06_inline_map: an inline map next to a named field.
func H_C06_inline_map() {
	v := r2{Named: symStr("named", 1), Rest: map[string]string{"k1": symStr("k1", 1), "k2": "two"}}
	c, err := ucfg.NewFrom(v)
	verif.Assert(err == nil, "C06/inline map accepted by NewFrom")
	if err != nil {
		return
	}
	var z r2
	err = c.Unpack(&z)
	verif.Assert(err == nil, "C06/inline map unpacks")
	if err != nil {
		return
	}
	verif.Reach("inline map compared")
	verif.Assert(z.Named == v.Named, "C06/named field next to an inline map")
	verif.Assert(verif.And(z.Rest["k1"] == v.Rest["k1"], z.Rest["k2"] == "two"), "C06/inline map entries")
}

// ---- dotted names that overlap nested structs, pointers, maps and inline structs (PathSep) ----

type r3in struct {
	Y int32    `config:"y"`
	S []string `config:"s"`
}
type r3deep struct {
	B r3in `config:"b"`
}
type r3inl struct {
	X int32 `config:"a.x"`
}
type r3a struct { // dotted names before and after the struct they reach into
	X int32 `config:"a.x"`
	A r3in  `config:"a"`
	Z int32 `config:"a.z"`
}
type r3b struct { // struct first
	A r3in  `config:"a"`
	X int32 `config:"a.x"`
}
type r3c struct { // pointer to struct, two levels
	X int32   `config:"a.b.x"`
	A *r3deep `config:"a"`
}
type r3d struct { // map sharing the prefix of dotted names
	X int32            `config:"m.x"`
	M map[string]int32 `config:"m"`
	W int32            `config:"m.w"`
}
type r3e struct { // the dotted name comes from an inline struct
	In r3inl `config:",inline"`
	A  r3in  `config:"a"`
}
type r3f struct { // only dotted names sharing prefixes
	X int32 `config:"a.b.x"`
	Y int32 `config:"a.b.y"`
	Z int32 `config:"a.z"`
}

func symR3in(name string) r3in {
	v := r3in{Y: verif.Int32(name + ".y")}
	switch verif.Choice(name+".s", 3) {
	case 1:
		v.S = []string{symStr(name+".s0", 1)}
	case 2:
		v.S = []string{symStr(name+".s0", 1), "q"}
	}
	return v
}

func eqR3in(a, b r3in) bool {
	if len(a.S) != len(b.S) {
		return false
	}
	res := a.Y == b.Y
	for i := range a.S {
		res = verif.And(res, a.S[i] == b.S[i])
	}
	return res
}

// H_C06_dotted: with a path separator, dotted config names and nested structs / pointers / maps /
// inline structs may describe the same object; every declaration order must survive the round trip.
func H_C06_dotted() {
	opts := []ucfg.Option{ucfg.PathSep(".")}
	x, z := verif.Int32("x"), verif.Int32("z")
	rt := func(v, zero interface{}) bool {
		var c *ucfg.Config
		var err error
		if verif.Choice("via", 2) == 0 {
			c, err = ucfg.NewFrom(v, opts...)
		} else {
			c = ucfg.New()
			err = c.Merge(v, opts...)
		}
		verif.Assert(err == nil, "C06/dotted: struct accepted")
		if err != nil {
			return false
		}
		err = c.Unpack(zero, opts...)
		verif.Assert(err == nil, "C06/dotted: config unpacks into the same type")
		return err == nil
	}
	shape := verif.Choice("shape", 6)
	lbl := "C06/dotted: round trip/shape=" + itoa(shape)
	switch shape {
	case 0:
		v := r3a{X: x, A: symR3in("a"), Z: z}
		var o r3a
		if rt(v, &o) {
			verif.Assert(verif.And(verif.And(o.X == v.X, o.Z == v.Z), eqR3in(o.A, v.A)), lbl)
		}
	case 1:
		v := r3b{X: x, A: symR3in("a")}
		var o r3b
		if rt(v, &o) {
			verif.Assert(verif.And(o.X == v.X, eqR3in(o.A, v.A)), lbl)
		}
	case 2:
		v := r3c{X: x, A: &r3deep{B: symR3in("a")}}
		var o r3c
		if rt(v, &o) {
			verif.Assert(o.A != nil && verif.And(o.X == v.X, eqR3in(o.A.B, v.A.B)), lbl)
		}
	case 3:
		v := r3d{X: x, W: z, M: map[string]int32{"k": verif.Int32("m.k")}}
		var o r3d
		if rt(v, &o) {
			// the map receives every setting below m (x and w too): compare the entry the value had
			verif.Assert(verif.And(verif.And(o.X == v.X, o.W == v.W), o.M["k"] == v.M["k"]), lbl)
		}
	case 4:
		v := r3e{In: r3inl{X: x}, A: symR3in("a")}
		var o r3e
		if rt(v, &o) {
			verif.Assert(verif.And(o.In.X == v.In.X, eqR3in(o.A, v.A)), lbl)
		}
	case 5:
		v := r3f{X: x, Y: verif.Int32("y"), Z: z}
		var o r3f
		if rt(v, &o) {
			verif.Assert(verif.And(verif.And(o.X == v.X, o.Y == v.Y), o.Z == v.Z), lbl)
		}
	}
	verif.Reach("dotted round trip compared")
}
