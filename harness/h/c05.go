package h

// C05 Every input shape normalizes to the same canonical tree.

import (
	ucfg "github.com/elastic/go-ucfg"

	"vharness/verif"
)

type c05Struct struct {
	A interface{} `config:"a"`
	B interface{} `config:"b"`
}

type c05Typed struct {
	A int64  `config:"a"`
	B *int64 `config:"b"`
}

const nReprs = 8

var reprName = [...]string{"map[string]interface{}", "map[interface{}]interface{}", "typed map/slice", "struct", "pointers", "*Config", "array", "*interface{}"}

// repr materialises the node in one of the Go representations. ok is false if
// the representation cannot express this shape (the path is then skipped).
func repr(n *Node, r int) (v interface{}, ok bool) {
	if r == 7 && n.Kind != kAbsent && n.Kind != kNil {
		// every value is reached through a pointer to an interface value
		inner, ok := repr7(n)
		if !ok {
			return nil, false
		}
		return &inner, true
	}
	switch n.Kind {
	case kAbsent, kNil:
		return nil, true
	case kInt:
		if r == 4 {
			i := n.I
			pi := &i
			return &pi, true
		}
		return n.I, true
	case kUint:
		return n.U, true
	case kBool:
		return n.B, true
	case kStr:
		return n.S, true
	}
	isDict := n.dictLen() > 0 || len(n.List) == 0
	if isDict && len(n.List) > 0 && r != 0 && r != 1 {
		// a node with named and indexed settings: only the generic map spellings can express it
		r = 0
	}
	switch r {
	case 0, 4, 5:
		if isDict {
			m := map[string]interface{}{}
			for _, k := range n.Keys {
				if c := n.Dict[k]; c.Kind != kAbsent {
					cv, ok := repr(c, r)
					if !ok {
						return nil, false
					}
					m[k] = cv
				}
			}
			for i, e := range n.List {
				ev, ok := repr(e, r)
				if !ok {
					return nil, false
				}
				m[itoa(i)] = ev
			}
			if r == 4 {
				return &m, true
			}
			if r == 5 {
				c, err := ucfg.NewFrom(m)
				if err != nil {
					return nil, false
				}
				return c, true
			}
			return m, true
		}
		l := []interface{}{}
		for _, e := range n.List {
			ev, ok := repr(e, r)
			if !ok {
				return nil, false
			}
			l = append(l, ev)
		}
		if r == 4 {
			return &l, true
		}
		if r == 5 {
			c, err := ucfg.NewFrom(l)
			if err != nil {
				return nil, false
			}
			return c, true
		}
		return l, true
	case 1:
		if isDict {
			m := map[interface{}]interface{}{}
			for _, k := range n.Keys {
				if c := n.Dict[k]; c.Kind != kAbsent {
					cv, ok := repr(c, r)
					if !ok {
						return nil, false
					}
					m[k] = cv
				}
			}
			for i, e := range n.List {
				ev, ok := repr(e, r)
				if !ok {
					return nil, false
				}
				m[itoa(i)] = ev
			}
			return m, true
		}
		return repr(n, 0)
	case 2:
		// typed containers need homogeneous int children
		if isDict {
			m := map[string]int64{}
			for _, k := range n.Keys {
				c := n.Dict[k]
				if c.Kind == kAbsent {
					continue
				}
				if c.Kind != kInt {
					return nil, false
				}
				m[k] = c.I
			}
			return m, true
		}
		l := []int64{}
		for _, e := range n.List {
			if e.Kind != kInt {
				return nil, false
			}
			l = append(l, e.I)
		}
		return l, true
	case 3:
		if !isDict {
			return repr(n, 0)
		}
		var s c05Struct
		for _, k := range n.Keys {
			c := n.Dict[k]
			if c.Kind == kAbsent {
				continue
			}
			cv, ok := repr(c, r)
			if !ok {
				return nil, false
			}
			switch k {
			case "a":
				s.A = cv
			case "b":
				s.B = cv
			default:
				return nil, false
			}
		}
		return s, true
	case 6:
		if isDict || len(n.List) != 2 {
			return repr(n, 0)
		}
		var a [2]interface{}
		for i, e := range n.List {
			ev, ok := repr(e, r)
			if !ok {
				return nil, false
			}
			a[i] = ev
		}
		return a, true
	}
	return nil, false
}

func c05Spec() genSpec {
	return genSpec{depth: 1, keys: []string{"a", "b"}, maxList: 2, prims: 1, signed: true, mixed: true}
}

// c05DeepSpec: thorough only, for one of the two members: depth 2 over one key, lists up to 1,
// numbers and booleans (446 shapes).
func c05DeepSpec() genSpec {
	return genSpec{depth: 2, keys: []string{"a"}, maxList: 1, prims: 2, signed: true, mixed: true}
}

// H_C05_repr: the same tree in every Go representation gives the same data; feeding the
// result back gives an identical config.
func H_C05_repr() {
	sp := c05Spec()
	spA := sp
	if verif.Tier() > 0 && verif.Choice("family", 2) == 1 {
		spA = c05DeepSpec()
		sp = genSpec{depth: 1, keys: []string{"a"}, maxList: 1, prims: 1, signed: true}
	}
	root := nDict().set("a", genNode("T.a", spA, true)).set("b", genNode("T.b", sp, true))
	r := verif.Choice("repr", nReprs)
	in, ok := repr(root, r)
	verif.Assume(ok)
	c, err := ucfg.NewFrom(in)
	verif.Assert(err == nil, "C05/NewFrom accepted/"+reprName[r])
	if err != nil {
		return
	}
	got, err := unpackTree(c)
	verif.Assert(err == nil, "C05/unpack generic")
	if err != nil {
		return
	}
	verif.Reach("normalised and compared")
	verif.Assert(eqTree(got, root), "C05/same data/"+reprName[r])
	// idempotence
	c2, err := ucfg.NewFrom(got)
	verif.Assert(err == nil, "C05/feed back accepted")
	if err != nil {
		return
	}
	got2, err := unpackTree(c2)
	verif.Assert(err == nil && verif.Eq(got, got2), "C05/feed back identical/"+reprName[r])
}

// flatten spells the dictionary tree with dotted keys: every edge into a
// container child is flattened or kept nested by choice.
func flatten(n *Node, name string, out map[string]interface{}, prefix string) {
	for _, k := range n.Keys {
		c := n.Dict[k]
		if c.Kind == kAbsent {
			continue
		}
		key := k
		if prefix != "" {
			key = prefix + "." + k
		}
		if c.Kind == kCfg && !c.empty() && verif.Choice(name+"."+key+".flat", 2) == 1 {
			if c.dictLen() > 0 {
				flatten(c, name, out, key)
			} else {
				// every element is spelled either as "key.i" at this level or as
				// entry "i" of a nested map under "key" (any mixture)
				nested := map[string]interface{}{}
				for i, e := range c.List {
					ek := key + "." + itoa(i)
					if verif.Choice(name+"."+ek+".nested", 2) == 1 {
						nested[itoa(i)] = e.toGo()
					} else if e.Kind == kCfg && e.dictLen() > 0 && verif.Choice(name+"."+ek+".flat", 2) == 1 {
						flatten(e, name, out, ek)
					} else {
						out[ek] = e.toGo()
					}
				}
				if len(nested) > 0 {
					out[key] = nested
				}
			}
			continue
		}
		if c.Kind == kCfg && c.dictLen() > 0 {
			sub := map[string]interface{}{}
			flatten(c, name, sub, "")
			out[key] = sub
			continue
		}
		out[key] = c.toGo()
	}
}

// H_C05_dotted: with a path separator, dotted keys are equivalent to nesting in any mixture.
func H_C05_dotted() {
	sp := genSpec{depth: 2, keys: []string{"a", "b"}, maxList: 2, prims: 1, noNil: true}
	if verif.Tier() == 0 {
		sp.keys = []string{"a"}
	}
	root := nDict().set("p", genNode("T.p", sp, true)).set("q", nUint(verif.Uint64("T.q")))
	flat := map[string]interface{}{}
	flatten(root, "F", flat, "")
	verif.PermuteMaps(true)
	c, err := ucfg.NewFrom(flat, ucfg.PathSep("."))
	verif.PermuteMaps(false)
	verif.Assert(err == nil, "C05/dotted input accepted")
	if err != nil {
		return
	}
	got, err := unpackTree(c, ucfg.PathSep("."))
	verif.Reach("dotted compared")
	verif.Assert(err == nil && eqTree(got, root), "C05/dotted equals nested")
}

// H_C05_dup: an input that defines the same setting twice must be rejected as a duplicate,
// whatever the enumeration order of the input map.
type c05Key string

func H_C05_dup() {
	x := verif.Uint64("x")
	y := verif.Uint64("y")
	var in interface{}
	switch verif.Choice("case", 7) {
	case 4: // two keys of different Go types with the same text
		in = map[interface{}]interface{}{"a": x, c05Key("a"): y}
	case 5:
		in = map[interface{}]interface{}{"o": map[interface{}]interface{}{"a": map[string]interface{}{"k": x}, c05Key("a"): map[string]interface{}{"j": y}}}
	case 6:
		// (not a duplicate) the same *Config used for two settings, one of them extended by a dotted key:
		// equals the generic-map spelling, and the Config itself stays what it was
		cfg, err := ucfg.NewFrom(map[string]interface{}{"x": x})
		verif.Assume(err == nil)
		verif.PermuteMaps(true)
		c, err := ucfg.NewFrom(map[string]interface{}{"a": cfg, "a.y": y, "b": cfg}, ucfg.PathSep("."))
		verif.PermuteMaps(false)
		verif.Assert(err == nil, "C05/config used twice accepted")
		if err == nil {
			got, err := unpackTree(c, ucfg.PathSep("."))
			want := nDict().set("a", nDict().set("x", nUint(x)).set("y", nUint(y))).set("b", nDict().set("x", nUint(x)))
			verif.Assert(err == nil && eqTree(got, want), "C05/a *Config used for two settings equals the generic-map spelling")
			own, err := unpackTree(cfg)
			verif.Assert(err == nil && eqTree(own, nDict().set("x", nUint(x))) && cfg.Path(".") == "", "C05/a *Config used as input stays what it was")
		}
		verif.Reach("duplicate input")
		return
	case 0:
		in = map[string]interface{}{"a": map[string]interface{}{"b": x}, "a.b": y}
	case 1:
		in = map[string]interface{}{"a": x, "a.b": y}
	case 2:
		in = map[string]interface{}{"a.b": map[string]interface{}{"c": x}, "a": map[string]interface{}{"b.c": y}}
	case 3:
		in = map[string]interface{}{"l.0": x, "l": []interface{}{y}}
	}
	verif.PermuteMaps(true)
	_, err := ucfg.NewFrom(in, ucfg.PathSep("."))
	verif.PermuteMaps(false)
	verif.Reach("duplicate input")
	verif.Assert(err != nil, "C05/duplicate setting rejected")
}

// repr7: the generic map / slice spelling with every child wrapped in *interface{}.
func repr7(n *Node) (interface{}, bool) {
	switch n.Kind {
	case kInt:
		return n.I, true
	case kUint:
		return n.U, true
	case kBool:
		return n.B, true
	case kStr:
		return n.S, true
	}
	if n.dictLen() > 0 || len(n.List) == 0 {
		m := map[string]interface{}{}
		for _, k := range n.Keys {
			if c := n.Dict[k]; c.Kind != kAbsent {
				cv, ok := repr(c, 7)
				if !ok {
					return nil, false
				}
				m[k] = cv
			}
		}
		for i, e := range n.List {
			ev, ok := repr(e, 7)
			if !ok {
				return nil, false
			}
			m[itoa(i)] = ev
		}
		return m, true
	}
	l := []interface{}{}
	for _, e := range n.List {
		ev, ok := repr(e, 7)
		if !ok {
			return nil, false
		}
		l = append(l, ev)
	}
	return l, true
}
