package h

// C14 Every failure is a typed error that names the offending setting.

import (
	"strings"
	"time"

	ucfg "github.com/elastic/go-ucfg"

	"vharness/verif"
)

type e1in struct {
	X int8   `config:"x"`
	V uint8  `config:"v" validate:"min=1"`
	T string `config:"t"`
}

type e1inl struct {
	Q int8 `config:"q"`
}

type e1 struct {
	A    int8            `config:"a"`
	S    string          `config:"s"`
	N    e1in            `config:"n"`
	L    []e1in          `config:"l"`
	M    map[string]e1in `config:"m"`
	P    *e1in           `config:"p"`
	Inl  e1inl           `config:",inline"`
	Arr  [2]int          `config:"arr"`
	R    string          `config:"r"`
	D    time.Duration   `config:"d"`
	Deep struct {
		In e1in `config:"in"`
	} `config:"deep"`
	Out struct {
		Name  string `config:"name" validate:"required"`
		Inner struct {
			Port int `config:"port"`
		} `config:"inner"`
	} `config:"out"`
	Any interface{}            `config:"any"`
	AM  map[string]interface{} `config:"am"`
	U   e1Unp                  `config:"u"`
	UL  []e1Unp                `config:"ul"`
}

// e1Unp decodes its object form itself (a non-Config Unpacker): the errors of the nested calls know
// only the path below the value they were given.
type e1Unp struct {
	in e1in
}

func (u *e1Unp) Unpack(v interface{}) error {
	c, err := ucfg.NewFrom(v)
	if err != nil {
		return err
	}
	return c.Unpack(&u.in)
}

func validIn() map[string]interface{} {
	return map[string]interface{}{"x": 1, "v": 1, "t": "t"}
}

// fault kinds
const (
	fWrongType  = iota // an object where a number is expected
	fConversion        // text that does not parse
	fRange             // a number outside the target range (symbolic, constrained out of range)
	fValidator         // a value that breaks min=1
	nFaultKinds
)

// H_C14_faults: a valid configuration with one fault injected at a chosen position.
func H_C14_faults() {
	withMeta := verif.Choice("metadata", 2) == 1
	opts := []ucfg.Option{ucfg.PathSep("."), ucfg.VarExp}
	if withMeta {
		opts = append(opts, ucfg.MetaData(ucfg.Meta{Source: "conf.d/test.yml"}))
	}
	cfg := map[string]interface{}{
		"a": 1, "s": "s", "n": validIn(), "l": []interface{}{validIn(), validIn()}, "m": map[string]interface{}{"k": validIn()},
		"p": validIn(), "q": 1, "arr": []interface{}{1, 2}, "r": "plain", "d": "1s", "deep": map[string]interface{}{"in": validIn()},
		"u": validIn(), "ul": []interface{}{validIn(), validIn()},
		"out": map[string]interface{}{"name": "n", "inner": map[string]interface{}{"port": 1}},
	}
	bad := func(kind int, field string) (interface{}, string) {
		switch kind {
		case fWrongType:
			return map[string]interface{}{"obj": 1}, "x"
		case fConversion:
			return "not-a-number", "x"
		case fRange:
			i := verif.Int64("out-of-range")
			verif.Assume(verif.Or(i > 127, i < -128))
			return i, "x"
		default:
			return 0, "v"
		}
	}
	kind := verif.Choice("kind", nFaultKinds)
	pos := verif.Choice("position", 17)
	path := ""
	switch pos {
	case 0: // top-level scalar
		if kind == fValidator {
			return
		}
		v, _ := bad(kind, "")
		cfg["a"] = v
		path = "a"
	case 1: // nested struct
		v, f := bad(kind, "")
		in := validIn()
		in[f] = v
		cfg["n"] = in
		path = "n." + f
	case 2: // inside a list
		v, f := bad(kind, "")
		in := validIn()
		in[f] = v
		cfg["l"] = []interface{}{validIn(), in}
		path = "l.1." + f
	case 3: // inside a map
		v, f := bad(kind, "")
		in := validIn()
		in[f] = v
		cfg["m"] = map[string]interface{}{"k": in}
		path = "m.k." + f
	case 4: // behind a pointer
		v, f := bad(kind, "")
		in := validIn()
		in[f] = v
		cfg["p"] = in
		path = "p." + f
	case 5: // inline field
		if kind == fValidator {
			return
		}
		v, _ := bad(kind, "")
		cfg["q"] = v
		path = "q"
	case 6: // wrong list length for a fixed-size array
		cfg["arr"] = []interface{}{1}
		path = "arr"
	case 7: // unresolvable reference
		cfg["r"] = "${does.not.exist}"
		path = "r"
	case 8: // invalid duration
		cfg["d"] = "10 parsecs"
		path = "d"
	case 9: // two levels of structs
		v, f := bad(kind, "")
		in := validIn()
		in[f] = v
		cfg["deep"] = map[string]interface{}{"in": in}
		path = "deep.in." + f
	case 10: // validator failing on a nested struct the config does not mention at all
		delete(cfg, "n")
		path = "n.v"
	case 11: // list element of wrong type
		cfg["l"] = []interface{}{validIn(), 5}
		path = "l.1"
	case 14: // a required setting missing in an object that (dotted spelling) exists only as an outer level of a key
		cfg["out"] = map[string]interface{}{"inner": map[string]interface{}{"port": 1}}
		path = "out.name"
	case 15: // an unresolvable reference deep inside a value that is unpacked into interface{}
		cfg["any"] = map[string]interface{}{"b": map[string]interface{}{"c": "${does.not.exist}", "d": 1}}
		path = "any.b.c"
	case 16: // the same inside a list inside a generic map
		cfg["am"] = map[string]interface{}{"l": []interface{}{1, "${does.not.exist}"}}
		path = "am.l.1"
	case 12: // inside the object form of a type with its own Unpack(interface{})
		v, f := bad(kind, "")
		in := validIn()
		in[f] = v
		cfg["u"] = in
		path = "u"
	case 13: // the same inside a list
		v, f := bad(kind, "")
		in := validIn()
		in[f] = v
		cfg["ul"] = []interface{}{validIn(), in}
		path = "ul.1"
	}
	// how the configuration came to be: one nested input, the same settings spelled with dotted keys
	// (objects and lists exist only as intermediate nodes of the keys), or a history of two merges in
	// which the faulty list element is appended to a non-empty list
	build := verif.Choice("build", 5)
	var c *ucfg.Config
	var err error
	switch build {
	case 0:
		c, err = ucfg.NewFrom(cfg, opts...)
	case 1:
		flat := map[string]interface{}{}
		c14Flatten(flat, "", cfg)
		c, err = ucfg.NewFrom(flat, opts...)
	case 2:
		c, err = ucfg.NewFrom(map[string]interface{}{"l": []interface{}{validIn()}, "s": "old"}, opts...)
		if err == nil {
			err = c.Merge(cfg, opts...)
		}
	case 3:
		c, err = ucfg.NewFrom(map[string]interface{}{"l": []interface{}{validIn()}, "s": "old"}, opts...)
		if err == nil {
			err = c.Merge(cfg, append(append([]ucfg.Option{}, opts...), ucfg.AppendValues)...)
		}
		if pos == 2 {
			path = "l.2." + path[len("l.1."):]
		} else if pos == 11 {
			path = "l.2"
		}
	case 4:
		// the faulty element is there first; a later merge PREPENDS another element, moving it up
		c, err = ucfg.NewFrom(cfg, opts...)
		if err == nil {
			err = c.Merge(map[string]interface{}{"l": []interface{}{validIn()}, "ul": []interface{}{validIn()}}, append(append([]ucfg.Option{}, opts...), ucfg.PrependValues)...)
		}
		if pos == 2 {
			path = "l.2." + path[len("l.1."):]
		} else if pos == 11 {
			path = "l.2"
		} else if pos == 13 {
			path = "ul.2"
		}
	}
	verif.Assert(err == nil, "C14/config accepted")
	if err != nil {
		return
	}
	var t e1
	err = c.Unpack(&t, opts...)
	verif.Reach("fault injected")
	verif.Assert(err != nil, "C14/the fault makes Unpack fail/position="+itoa(pos))
	if err == nil {
		return
	}
	ue, ok := err.(ucfg.Error)
	verif.Assert(ok, "C14/error is a ucfg.Error")
	if !ok {
		return
	}
	verif.Assert(ue.Reason() != nil && ue.Class() != nil, "C14/Reason and Class are set")
	msg := err.Error()
	verif.Assert(strings.Contains(msg, "'"+path+"'"), "C14/message names the full dotted path of the setting/position="+itoa(pos)+"/kind="+itoa(kind)+"/build="+itoa(build))
	if withMeta && pos != 10 {
		// (position 10: the failing value is a default, it was not loaded from any source)
		verif.Assert(strings.Contains(msg, "conf.d/test.yml"), "C14/message names the source/position="+itoa(pos)+"/build="+itoa(build))
	}
}

// c14Flatten spells every setting of v with one dotted key.
func c14Flatten(out map[string]interface{}, prefix string, v interface{}) {
	switch w := v.(type) {
	case map[string]interface{}:
		for k, e := range w {
			c14Flatten(out, prefix+k+".", e)
		}
	case []interface{}:
		for i, e := range w {
			c14Flatten(out, prefix+itoa(i)+".", e)
		}
	default:
		out[prefix[:len(prefix)-1]] = v
	}
}

// H_C14_api: errors of the other API entry points are typed too.
func H_C14_api() {
	opts := []ucfg.Option{ucfg.PathSep(".")}
	c, err := ucfg.NewFrom(map[string]interface{}{"a": map[string]interface{}{"b": "str", "l": []interface{}{1, "x"}}, "p": 5}, opts...)
	verif.Assume(err == nil)
	var e error
	path := ""
	switch verif.Choice("call", 16) {
	case 10:
		_, e = c.Int("a.x.c", -1, opts...) // intermediate name missing
		path = "a.x"
	case 11:
		_, e = c.Int("a.b.c", -1, opts...) // below a primitive: the requested setting does not exist
		path = "a.b.c"
	case 12:
		_, e = c.CountField("zz", opts...)
		path = "zz"
	case 13:
		_, e = c.CountField("a.zz", opts...)
		path = "a.zz"
	case 14:
		// a reference nobody can resolve, counted
		c2, err := ucfg.NewFrom(map[string]interface{}{"r": "${missing}"}, append([]ucfg.Option{ucfg.VarExp}, opts...)...)
		verif.Assume(err == nil)
		_, e = c2.CountField("r", append([]ucfg.Option{ucfg.VarExp}, opts...)...)
		path = "r"
	case 15:
		e = c.SetInt("a.b.c", -1, 1, opts...) // write below a primitive
		path = "a.b"
	case 0:
		_, e = c.Int("a.b", -1, opts...)
		path = "a.b"
	case 1:
		_, e = c.Bool("a.l", 1, opts...)
		path = "a.l.1"
	case 2:
		_, e = c.String("zz", -1, opts...)
		path = "zz"
	case 3:
		_, e = c.Child("p", -1, opts...)
		path = "p"
	case 4:
		_, e = c.Has("p.x", -1, opts...)
		path = "p"
	case 5:
		e = c.SetInt("p.x", -1, 1, opts...)
		path = "p"
	case 6:
		_, e = c.Remove("p.x", -1, opts...)
		path = "p"
	case 7:
		_, e = ucfg.NewFrom(map[string]interface{}{"k": make(chan int)}, opts...)
		path = "k"
	case 8:
		e = c.Merge(map[string]interface{}{"a.b": 1, "a": map[string]interface{}{"b": 2}}, opts...)
		path = "a.b"
	case 9:
		e = c.Unpack(5)
		path = ""
	}
	verif.Reach("api failure")
	verif.Assert(e != nil, "C14/api: call fails")
	if e == nil {
		return
	}
	ue, ok := e.(ucfg.Error)
	verif.Assert(ok && ue.Reason() != nil && ue.Class() != nil, "C14/api: error is a typed ucfg.Error")
	if path != "" {
		// (the part before the stack trace that critical errors append)
		msg := e.Error()
		if i := strings.Index(msg, "Trace:"); i >= 0 {
			msg = msg[:i]
		}
		verif.Assert(strings.Contains(msg, "'"+path+"'"), "C14/api: message names the setting/call="+path)
	}
}
