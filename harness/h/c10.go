package h

// C10 Merge copies: source and destination stay independent, the source is untouched.

import (
	ucfg "github.com/elastic/go-ucfg"

	"vharness/verif"
)

type c10Wrap struct {
	C *ucfg.Config `config:"w"`
	N uint64       `config:"n"`
}

type snapshot struct {
	path   string
	parent *ucfg.Config
	tree   interface{}
	keys   []string
	ref    uint64
	refErr bool
}

func snap(c *ucfg.Config, opts ...ucfg.Option) snapshot {
	var s snapshot
	s.path = c.Path(".")
	s.parent = c.Parent()
	s.tree, _ = unpackTree(c, opts...)
	s.keys = c.FlattenedKeys(opts...)
	v, err := c.Uint("r", -1, opts...)
	s.ref, s.refErr = v, err != nil
	return s
}

func (a snapshot) same(b snapshot) bool {
	return verif.And(verif.And(a.path == b.path, a.parent == b.parent),
		verif.And(verif.And(verif.Eq(a.tree, b.tree), eqStrings(a.keys, b.keys)), verif.And(a.ref == b.ref, a.refErr == b.refErr)))
}

// H_C10_source_untouched: merging from a *Config (directly or embedded in a map, slice or struct)
// never changes the source; write monitor + public observers.
func H_C10_source_untouched() {
	opts := []ucfg.Option{ucfg.VarExp, ucfg.PathSep(".")}
	u := verif.Uint64("u")
	var srcA interface{} = map[string]interface{}{"b": u, "l": []interface{}{u, "x"}, "e": map[string]interface{}{}, "el": []interface{}{}}
	if verif.Tier() > 0 && verif.Choice("generated-source", 2) == 1 {
		// thorough: the object the source holds under "a" is every container shape of the tree generator
		x := genNode("S.a", genSpec{depth: 1, keys: []string{"b", "l"}, maxList: 2, prims: 1, mixed: true}, true)
		if x.Kind != kCfg {
			return
		}
		srcA = x.toGo()
	}
	src, err := ucfg.NewFrom(map[string]interface{}{
		"a": srcA,
		"r": "${a.b}", "l": []interface{}{1, 2}, "e": map[string]interface{}{}, "el": []interface{}{},
	}, opts...)
	verif.Assume(err == nil)
	// the source may itself be a child of another config
	var handle *ucfg.Config = src
	if verif.Choice("src-is-child", 2) == 1 {
		h, err := src.Child("a", -1)
		verif.Assume(err == nil)
		handle = h
	}
	var from interface{}
	pos := verif.Choice("position", 7)
	switch pos {
	case 0:
		from = handle
	case 1:
		from = map[string]interface{}{"k": handle, "o": u}
	case 2:
		from = map[string]interface{}{"l": []interface{}{handle, 5}}
	case 3:
		from = c10Wrap{C: handle, N: u}
	case 4:
		from = map[string]interface{}{"k": map[string]interface{}{"deep": handle}}
	case 5:
		// a second, dotted key of the same input extends into the embedded config
		from = map[string]interface{}{"k": handle, "k.added": u, "k.e.x": 1, "k.el.0": 2}
	case 6:
		from = map[string]interface{}{"l": []interface{}{handle}, "l.0.added": u}
	}
	dstIn := map[string]interface{}{"k": map[string]interface{}{"old": 1}, "l": []interface{}{9}, "a": map[string]interface{}{"z": 3}}
	switch verif.Choice("destination", 3) {
	case 1:
		// primitives (and a reference to one) where the source holds objects and lists
		dstIn = map[string]interface{}{"k": 1, "l": "prim", "a": 5, "e": "${a}", "el": true, "w": 2}
	case 2:
		dstIn = map[string]interface{}{}
	}
	dst, err := ucfg.NewFrom(dstIn, opts...)
	verif.Assume(err == nil)
	pol := verif.Choice("policy", nPolicies)

	before := snap(handle, opts...)
	beforeRoot := snap(src, opts...)
	verif.ReadOnlyBegin("C10/source written during Merge", handle, src)
	err = dst.Merge(from, append(polOpts(pol), opts...)...)
	verif.ReadOnlyEnd()
	verif.Assert(err == nil, "C10/merge accepted")
	verif.Reach("monitor: merged from a config")
	verif.Assert(before.same(snap(handle, opts...)), "C10/source observers unchanged by Merge")
	verif.Assert(beforeRoot.same(snap(src, opts...)), "C10/source root observers unchanged by Merge")

	// structurally: no mutable storage is reachable from both sides (metadata records and the parsed
	// reference expressions are shared on purpose and never written: that is C11's write monitor)
	verif.Disjoint("C10/destination and source share no mutable storage", dst, src, "*ucfg.Meta", "ucfg.dynValue")

	// afterwards: writes on one side are invisible on the other
	dstBefore := snap(dst, opts...)
	switch verif.Choice("later", 8) {
	case 6:
		// writes into containers that were EMPTY when they were copied
		for _, pfx := range []string{"", "k.", "w.", "l.0.", "k.deep.", "a."} {
			dst.SetUint(pfx+"e.x", -1, 4242, opts...)
			dst.SetUint(pfx+"el", 0, 4242, opts...)
		}
		verif.Assert(before.same(snap(handle, opts...)), "C10/write into a copied empty container on the destination invisible through source")
		verif.Assert(beforeRoot.same(snap(src, opts...)), "C10/write into a copied empty container on the destination invisible through source root")
	case 7:
		handle.SetUint("e.x", -1, 777, opts...)
		handle.SetUint("el", 0, 777, opts...)
		src.SetUint("e.x", -1, 777, opts...)
		src.SetUint("a.e.x", -1, 777, opts...)
		verif.Assert(dstBefore.same(snap(dst, opts...)), "C10/write into an empty container of the source invisible through destination")
	case 0:
		dst.SetUint("a.b", -1, 4242, opts...)
		dst.SetUint("k.a.b", -1, 4242, opts...)
		dst.SetUint("k.b", -1, 4242, opts...)
		dst.SetUint("w.b", -1, 4242, opts...)
		dst.SetUint("l.0.b", -1, 4242, opts...)
		dst.SetUint("k.deep.b", -1, 4242, opts...)
		verif.Assert(before.same(snap(handle, opts...)), "C10/write on destination invisible through source")
	case 1:
		dst.Remove("a.l", 0, opts...)
		dst.Remove("k.a", -1, opts...)
		dst.Remove("k.l", 0, opts...)
		dst.Remove("w.l", 0, opts...)
		dst.Remove("l.0.l", 0, opts...)
		verif.Assert(before.same(snap(handle, opts...)), "C10/removal on destination invisible through source")
	case 2:
		dst.Merge(map[string]interface{}{"a": map[string]interface{}{"l": []interface{}{7, 8, 9}}, "k": map[string]interface{}{"l": []interface{}{7}}}, ucfg.AppendValues, ucfg.PathSep("."))
		verif.Assert(before.same(snap(handle, opts...)), "C10/merge on destination invisible through source")
	case 3:
		handle.SetUint("b", -1, 777, opts...)
		handle.SetUint("a.b", -1, 777, opts...)
		handle.SetUint("l", 0, 777, opts...)
		verif.Assert(dstBefore.same(snap(dst, opts...)), "C10/write on source invisible through destination")
	case 4:
		handle.Remove("l", 0, opts...)
		handle.Remove("a", -1, opts...)
		handle.Remove("b", -1, opts...)
		verif.Assert(dstBefore.same(snap(dst, opts...)), "C10/removal on source invisible through destination")
	case 5:
		handle.Merge(map[string]interface{}{"l": []interface{}{7, 8, 9}, "b": 1, "a": map[string]interface{}{"l": []interface{}{0}}}, ucfg.PrependValues)
		verif.Assert(dstBefore.same(snap(dst, opts...)), "C10/merge on source invisible through destination")
	}
}
