package h

// C16 A per-field merge policy applies to exactly the named subtree.

import (
	"strings"

	ucfg "github.com/elastic/go-ucfg"

	"vharness/verif"
)

type fieldOpt struct {
	segs []string
	pol  int
}

// polWithFields: the global policy everywhere except inside the subtrees selected by
// the field options ("*" = any list index at that level, "**" = any depth).
func polWithFields(global int, fos []fieldOpt) polFn {
	return func(path []string) int {
		cur := global
		type act struct {
			segs []string
			pol  int
		}
		var active []act
		for _, fo := range fos {
			active = append(active, act{fo.segs, fo.pol})
		}
		for _, k := range path {
			var next []act
			isIdx := len(k) > 0 && k[0] >= '0' && k[0] <= '9'
			for _, a := range active {
				segs := a.segs
				if segs[0] == "**" {
					next = append(next, a)
					segs = segs[1:]
					if len(segs) == 0 {
						continue
					}
				}
				if segs[0] == k || (segs[0] == "*" && isIdx) {
					if len(segs) == 1 {
						cur = a.pol
					} else {
						next = append(next, act{segs[1:], a.pol})
					}
				}
			}
			active = next
		}
		return cur
	}
}

const (
	fpMerge = iota
	fpReplace
	fpAppend
	fpPrepend
)

func fieldOption(kind int, path string) (ucfg.Option, int) {
	switch kind {
	case fpMerge:
		return ucfg.FieldMergeValues(path), polDefault
	case fpReplace:
		return ucfg.FieldReplaceValues(path), polReplace
	case fpAppend:
		return ucfg.FieldAppendValues(path), polAppend
	default:
		return ucfg.FieldPrependValues(path), polPrepend
	}
}

var c16Paths = []string{"a", "a.b", "b", "x", "**.b", "a.l", "*.b", "p.1", "p.1.k", "**.zzz"}

// c16Tree: {a: {b: L1, l: L2, c: {b: L3}}, b: L4, q: {b: L5}} where every L is a list
// (so every policy is observable) of chosen length.
func c16List(name string, l int) *Node {
	n := nList()
	if strings.HasPrefix(name, "B.") {
		l = 1
	}
	for i := 0; i < l; i++ {
		n.List = append(n.List, nUint(verif.Uint64(name+"."+itoa(i))))
	}
	return n
}

func c16Tree(name string) *Node {
	return nDict().
		set("a", nDict().set("b", c16List(name+".a.b", 2)).set("l", nList(nDict().set("b", c16List(name+".a.l.0.b", 1)))).set("c", nDict().set("b", c16List(name+".a.c.b", 1)))).
		set("b", c16List(name+".b", 2)).
		set("q", nDict().set("b", c16List(name+".q.b", 1))).
		// a list of objects: a policy for one index must not reach the elements behind it
		set("p", nList(
			nDict().set("k", nDict().set(name, nUint(0))),
			nDict().set("k", nDict().set(name, nUint(1))),
			nDict().set("k", nDict().set(name, nUint(2))),
			nDict().set("k", nDict().set(name, nUint(3)))))
}

// H_C16_field: global policy + one or two per-field options against the model in which the
// named policy is in force exactly inside the named subtree.
func H_C16_field() {
	a := c16Tree("A")
	b := c16Tree("B")
	global := verif.Choice("global", nPolicies)
	nOpts := 1 + verif.Choice("nopts", 2)
	opts := []ucfg.Option{ucfg.PathSep(".")}
	opts = append(opts, polOpts(global)...)
	var fos []fieldOpt
	for i := 0; i < nOpts; i++ {
		p := c16Paths[verif.Choice("fo"+itoa(i)+".path", len(c16Paths))]
		o, pol := fieldOption(verif.Choice("fo"+itoa(i)+".kind", 4), p)
		opts = append(opts, o)
		fos = append(fos, fieldOpt{strings.Split(p, "."), pol})
	}
	if len(fos) == 2 {
		// two options for the same path: the statement does not say which wins
		p0, p1 := strings.Join(fos[0].segs, "."), strings.Join(fos[1].segs, ".")
		verif.Assume(p0 != p1)
		// a '**' option and an explicit option that select the same node: precedence is not specified either
		if p0 == "**.b" || p1 == "**.b" {
			other := p0
			if p0 == "**.b" {
				other = p1
			}
			verif.Assume(other != "b" && other != "a.b" && other != "*.b" && other != "a")
		}
	}
	ca, err := ucfg.NewFrom(a.toGo(), ucfg.PathSep("."))
	verif.Assume(err == nil)
	err = ca.Merge(b.toGo(), opts...)
	verif.Assert(err == nil, "C16/merge with field options accepted")
	if err != nil {
		return
	}
	want := mergeVal(polWithFields(global, fos), nil, a, b)
	got, err := unpackTree(ca, ucfg.PathSep("."))
	verif.Reach("field policy compared")
	label := "C16/field policy applies to exactly the named subtree/global=" + polName[global]
	for _, fo := range fos {
		label += "/" + strings.Join(fo.segs, ".") + "=" + polName[fo.pol]
	}
	verif.Assert(err == nil && eqTree(got, want), label)
}
