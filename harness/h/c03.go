package h

// C03 Typed unpacking preserves the value or fails - it never wraps around.
//
// Sources are full-range symbolic int64 / uint64 / float64 settings (every
// bit pattern), set with SetInt/SetUint/SetFloat or built by NewFrom, read
// back through the typed getters and through Unpack into every primitive
// target kind (plain, pointer, named), directly and through ${ref}.
// Oracle, closed form: err == nil  =>  stored value == mathematical value.

import (
	"math"
	"strconv"
	"time"

	ucfg "github.com/elastic/go-ucfg"

	"vharness/verif"
)

const (
	two63  = 9223372036854775808.0
	two64  = 18446744073709551616.0
	maxSec = 9223372036 // floor(MaxInt64 / 1e9)
)

type sint interface {
	~int | ~int8 | ~int16 | ~int32 | ~int64
}
type uint_ interface {
	~uint | ~uint8 | ~uint16 | ~uint32 | ~uint64
}

type box[K any] struct {
	V K `config:"v"`
}
type pbox[K any] struct {
	V *K `config:"v"`
}

type myInt8 int8
type myUint16 uint16
type myFloat32 float32

// numeric source kinds
const (
	srcInt = iota
	srcUint
	srcFloat
	nSrc
)

var srcName = [...]string{"int64", "uint64", "float64"}

type numSrc struct {
	kind int
	i    int64
	u    uint64
	f    float64
}

func pickSrc() numSrc {
	s := numSrc{kind: verif.Choice("src", nSrc)}
	switch s.kind {
	case srcInt:
		s.i = verif.Int64("i")
	case srcUint:
		s.u = verif.Uint64("u")
	case srcFloat:
		s.f = verif.Float64("f")
	}
	return s
}

// mkCfg stores the source under "v", by setter, by NewFrom, or behind a reference.
func (s numSrc) mkCfg() (*ucfg.Config, []ucfg.Option) {
	route := verif.Choice("route", 3)
	switch route {
	case 0: // low-level setter
		c := ucfg.New()
		switch s.kind {
		case srcInt:
			c.SetInt("v", -1, s.i)
		case srcUint:
			c.SetUint("v", -1, s.u)
		case srcFloat:
			c.SetFloat("v", -1, s.f)
		}
		return c, nil
	case 1: // normalisation of a Go value
		var c *ucfg.Config
		var err error
		switch s.kind {
		case srcInt:
			c, err = ucfg.NewFrom(map[string]interface{}{"v": s.i})
		case srcUint:
			c, err = ucfg.NewFrom(map[string]interface{}{"v": s.u})
		case srcFloat:
			c, err = ucfg.NewFrom(map[string]interface{}{"v": s.f})
		}
		verif.Assert(err == nil, "C03/newfrom-number-accepted")
		return c, nil
	default: // produced by variable expansion: v = ${r}
		opts := []ucfg.Option{ucfg.VarExp}
		var c *ucfg.Config
		var err error
		switch s.kind {
		case srcInt:
			c, err = ucfg.NewFrom(map[string]interface{}{"r": s.i, "v": "${r}"}, opts...)
		case srcUint:
			c, err = ucfg.NewFrom(map[string]interface{}{"r": s.u, "v": "${r}"}, opts...)
		case srcFloat:
			c, err = ucfg.NewFrom(map[string]interface{}{"r": s.f, "v": "${r}"}, opts...)
		}
		verif.Assert(err == nil, "C03/newfrom-reference-accepted")
		return c, opts
	}
}

// ---- oracles: "ok implies exact" ----

func (s numSrc) okInt64(v int64) bool {
	switch s.kind {
	case srcInt:
		return v == s.i
	case srcUint:
		return verif.And(v >= 0, uint64(v) == s.u)
	default:
		return verif.And(verif.And(s.f >= -two63, s.f < two63), v == int64(s.f))
	}
}

func (s numSrc) okUint64(v uint64) bool {
	switch s.kind {
	case srcInt:
		return verif.And(s.i >= 0, v == uint64(s.i))
	case srcUint:
		return v == s.u
	default:
		// fractions in (-1, 0) truncate to 0; rejecting them is also allowed
		return verif.And(verif.And(s.f > -1, s.f < two64), v == uint64(s.f))
	}
}

func (s numSrc) okFloat64(v float64) bool {
	switch s.kind {
	case srcInt:
		return v == float64(s.i)
	case srcUint:
		return v == float64(s.u)
	default:
		return verif.Or(v == s.f, verif.And(verif.IsNaN(v), verif.IsNaN(s.f)))
	}
}

func (s numSrc) okFloat32(v float32) bool {
	var f float64
	switch s.kind {
	case srcInt:
		f = float64(s.i)
	case srcUint:
		f = float64(s.u)
	default:
		f = s.f
	}
	exact := verif.Or(v == float32(f), verif.And(verif.IsNaN(float64(v)), verif.IsNaN(f)))
	// a finite source must not silently become infinite
	finite := verif.Or(verif.Not(verif.And(f >= -math.MaxFloat64, f <= math.MaxFloat64)), verif.And(v >= -math.MaxFloat32, v <= math.MaxFloat32))
	return verif.And(exact, finite)
}

func (s numSrc) okDuration(d time.Duration) bool {
	switch s.kind {
	case srcInt:
		return verif.And(verif.And(s.i >= -maxSec, s.i <= maxSec), int64(d) == s.i*1000000000)
	case srcUint:
		return verif.And(s.u <= maxSec, uint64(d) == s.u*1000000000)
	default:
		ns := s.f * 1e9
		return verif.And(verif.And(ns >= -two63, ns < two63), int64(d) == int64(ns))
	}
}

func unpackSint[K sint](s numSrc, c *ucfg.Config, opts []ucfg.Option, name string) {
	var t box[K]
	if err := c.Unpack(&t, opts...); err == nil {
		verif.Reach("unpack ok")
		verif.Assert(s.okInt64(int64(t.V)), "C03/unpack/"+srcName[s.kind]+"->"+name)
	} else {
		verif.Reach("unpack error")
	}
}

func unpackUint[K uint_](s numSrc, c *ucfg.Config, opts []ucfg.Option, name string) {
	var t box[K]
	if err := c.Unpack(&t, opts...); err == nil {
		verif.Reach("unpack ok")
		verif.Assert(s.okUint64(uint64(t.V)), "C03/unpack/"+srcName[s.kind]+"->"+name)
	} else {
		verif.Reach("unpack error")
	}
}

// H_C03_unpack: every numeric source into every integer / float / duration target.
func H_C03_unpack() {
	s := pickSrc()
	c, opts := s.mkCfg()
	target := verif.Choice("target", 19)
	if opts != nil && (target == 15 || target == 18) {
		// a number behind a reference reaches a Duration target as formatted text
		// ("5" -> ParseDuration): formatting of symbolic numbers is opaque to the engine
		return
	}
	switch target {
	case 0:
		unpackSint[int8](s, c, opts, "int8")
	case 1:
		unpackSint[int16](s, c, opts, "int16")
	case 2:
		unpackSint[int32](s, c, opts, "int32")
	case 3:
		unpackSint[int64](s, c, opts, "int64")
	case 4:
		unpackSint[int](s, c, opts, "int")
	case 5:
		unpackUint[uint8](s, c, opts, "uint8")
	case 6:
		unpackUint[uint16](s, c, opts, "uint16")
	case 7:
		unpackUint[uint32](s, c, opts, "uint32")
	case 8:
		unpackUint[uint64](s, c, opts, "uint64")
	case 9:
		unpackUint[uint](s, c, opts, "uint")
	case 10:
		unpackSint[myInt8](s, c, opts, "named-int8")
	case 11:
		unpackUint[myUint16](s, c, opts, "named-uint16")
	case 12:
		var t box[float64]
		if err := c.Unpack(&t, opts...); err == nil {
			verif.Reach("unpack ok")
			verif.Assert(s.okFloat64(t.V), "C03/unpack/"+srcName[s.kind]+"->float64")
		}
	case 13:
		var t box[float32]
		if err := c.Unpack(&t, opts...); err == nil {
			verif.Reach("unpack ok")
			verif.Assert(s.okFloat32(t.V), "C03/unpack/"+srcName[s.kind]+"->float32")
		}
	case 14:
		var t box[myFloat32]
		if err := c.Unpack(&t, opts...); err == nil {
			verif.Assert(s.okFloat32(float32(t.V)), "C03/unpack/"+srcName[s.kind]+"->named-float32")
		}
	case 15:
		var t box[time.Duration]
		if err := c.Unpack(&t, opts...); err == nil {
			verif.Reach("unpack ok")
			verif.Assert(s.okDuration(t.V), "C03/unpack/"+srcName[s.kind]+"->duration")
		}
	case 16:
		var t pbox[int16]
		if err := c.Unpack(&t, opts...); err == nil {
			verif.Assert(t.V != nil, "C03/unpack/pointer-allocated")
			if t.V != nil {
				verif.Assert(s.okInt64(int64(*t.V)), "C03/unpack/"+srcName[s.kind]+"->*int16")
			}
		}
	case 17:
		var t pbox[uint32]
		if err := c.Unpack(&t, opts...); err == nil {
			verif.Assert(t.V != nil, "C03/unpack/pointer-allocated")
			if t.V != nil {
				verif.Assert(s.okUint64(uint64(*t.V)), "C03/unpack/"+srcName[s.kind]+"->*uint32")
			}
		}
	case 18:
		var t pbox[time.Duration]
		if err := c.Unpack(&t, opts...); err == nil {
			verif.Assert(t.V != nil, "C03/unpack/pointer-allocated")
			if t.V != nil {
				verif.Assert(s.okDuration(*t.V), "C03/unpack/"+srcName[s.kind]+"->*duration")
			}
		}
	}
}

// H_C03_getters: the same sources through Int / Uint / Float / Bool.
func H_C03_getters() {
	s := pickSrc()
	c, opts := s.mkCfg()
	switch verif.Choice("getter", 3) {
	case 0:
		if v, err := c.Int("v", -1, opts...); err == nil {
			verif.Reach("getter ok")
			verif.Assert(s.okInt64(v), "C03/getter/"+srcName[s.kind]+"->Int")
		} else {
			verif.Reach("getter error")
		}
	case 1:
		if v, err := c.Uint("v", -1, opts...); err == nil {
			verif.Reach("getter ok")
			verif.Assert(s.okUint64(v), "C03/getter/"+srcName[s.kind]+"->Uint")
		} else {
			verif.Reach("getter error")
		}
	case 2:
		if v, err := c.Float("v", -1, opts...); err == nil {
			verif.Reach("getter ok")
			verif.Assert(s.okFloat64(v), "C03/getter/"+srcName[s.kind]+"->Float")
		}
	}
}

// H_C03_must_succeed: the converse direction for the cases where the value is
// representable: the conversion must not be refused (otherwise "always fail"
// would satisfy the property).
func H_C03_must_succeed() {
	switch verif.Choice("case", 4) {
	case 0:
		i := verif.Int64("i")
		verif.Assume(verif.And(i >= -128, i <= 127))
		c := ucfg.New()
		c.SetInt("v", -1, i)
		var t box[int8]
		err := c.Unpack(&t)
		verif.Assert(err == nil, "C03/representable/int64->int8 accepted")
	case 1:
		u := verif.Uint64("u")
		verif.Assume(u <= 65535)
		c := ucfg.New()
		c.SetUint("v", -1, u)
		var t box[uint16]
		err := c.Unpack(&t)
		verif.Assert(err == nil, "C03/representable/uint64->uint16 accepted")
	case 2:
		f := verif.Float64("f")
		verif.Assume(verif.And(f > -2147483649.0, f < 2147483648.0))
		c := ucfg.New()
		c.SetFloat("v", -1, f)
		var t box[int32]
		err := c.Unpack(&t)
		verif.Assert(err == nil, "C03/representable/float64->int32 accepted")
	case 3:
		i := verif.Int64("i")
		verif.Assume(verif.And(i >= -maxSec, i <= maxSec))
		c := ucfg.New()
		c.SetInt("v", -1, i)
		var t box[time.Duration]
		err := c.Unpack(&t)
		verif.Assert(err == nil, "C03/representable/int64->duration accepted")
	}
}

// boundary table of textual numbers in every syntax strconv accepts
var c03Strings = []string{
	"0", "-0", "+0", "1", "-1", "127", "128", "-128", "-129", "255", "256", "32767", "32768", "65535", "65536",
	"2147483647", "2147483648", "-2147483648", "-2147483649", "4294967295", "4294967296",
	"9223372036854775807", "9223372036854775808", "-9223372036854775808", "-9223372036854775809",
	"18446744073709551615", "18446744073709551616", "0x7f", "0x80", "0xff", "0x100", "-0x80", "-0x81", "0o177", "0b1111111", "0b10000000",
	"1_000", "0x_ff", "007", "08", "1e3", "1.5", "-1.5", "1e400", "NaN", "Inf", "-Inf", "", " 1", "1 ", "abc", "true", "false", "t", "0x", "-", "+",
	"3.4028235e38", "3.5e38", "1s", "1.5h", "-2ms", "1", "9223372036", "9223372037",
}

// H_C03_strings: string settings into numeric targets, against strconv as the
// definition of "a string that parses" (concrete boundary table; the engine
// executes go-ucfg's code, the reference value comes from strconv directly).
func H_C03_strings() {
	s := c03Strings[verif.Choice("text", len(c03Strings))]
	c := ucfg.New()
	c.SetString("v", -1, s)
	switch verif.Choice("target", 8) {
	case 0:
		var t box[int8]
		if err := c.Unpack(&t); err == nil {
			ref, perr := strconv.ParseInt(s, 0, 8)
			verif.Assert(perr == nil && int64(t.V) == ref, "C03/unpack/string->int8")
		}
	case 1:
		var t box[int64]
		if err := c.Unpack(&t); err == nil {
			ref, perr := strconv.ParseInt(s, 0, 64)
			verif.Assert(perr == nil && t.V == ref, "C03/unpack/string->int64")
		}
	case 2:
		var t box[uint8]
		if err := c.Unpack(&t); err == nil {
			ref, perr := strconv.ParseUint(s, 0, 8)
			verif.Assert(perr == nil && uint64(t.V) == ref, "C03/unpack/string->uint8")
		}
	case 3:
		var t box[uint64]
		if err := c.Unpack(&t); err == nil {
			ref, perr := strconv.ParseUint(s, 0, 64)
			verif.Assert(perr == nil && t.V == ref, "C03/unpack/string->uint64")
		}
	case 4:
		var t box[float32]
		if err := c.Unpack(&t); err == nil {
			ref, perr := strconv.ParseFloat(s, 32)
			verif.Assert(perr == nil && (float64(t.V) == ref || ref != ref), "C03/unpack/string->float32")
		}
	case 5:
		var t box[float64]
		if err := c.Unpack(&t); err == nil {
			ref, perr := strconv.ParseFloat(s, 64)
			verif.Assert(perr == nil && (t.V == ref || ref != ref), "C03/unpack/string->float64")
		}
	case 6:
		var t box[bool]
		if err := c.Unpack(&t); err == nil {
			ref, perr := strconv.ParseBool(s)
			verif.Assert(perr == nil && t.V == ref, "C03/unpack/string->bool")
		}
	case 7:
		var t box[time.Duration]
		if err := c.Unpack(&t); err == nil {
			ref, perr := time.ParseDuration(s)
			verif.Assert(perr == nil && t.V == ref, "C03/unpack/string->duration")
		}
	}
	verif.Reach("string source")
}

// H_C03_symstr: short symbolic digit strings into int8 / uint8: go-ucfg's
// range handling against strconv with the target's bit size.
func H_C03_symstr() {
	n := 1 + verif.Choice("len", 3)
	s := verif.Bytes("s", n)
	for i := 0; i < n; i++ {
		b := s[i]
		// alphabet: digits, sign, hex/underscore markers
		verif.Assume(verif.Or(verif.And(b >= '0', b <= '9'), verif.Or(verif.Or(b == '-', b == '+'), verif.Or(b == 'x', b == '_'))))
	}
	c := ucfg.New()
	c.SetString("v", -1, s)
	if verif.Choice("target", 2) == 0 {
		var t box[int8]
		if err := c.Unpack(&t); err == nil {
			verif.Reach("symbolic text accepted")
			ref, perr := strconv.ParseInt(s, 0, 8)
			verif.Assert(verif.And(perr == nil, int64(t.V) == ref), "C03/unpack/symbolic-text->int8")
		}
	} else {
		var t box[uint8]
		if err := c.Unpack(&t); err == nil {
			verif.Reach("symbolic text accepted")
			ref, perr := strconv.ParseUint(s, 0, 8)
			verif.Assert(verif.And(perr == nil, uint64(t.V) == ref), "C03/unpack/symbolic-text->uint8")
		}
	}
}

// ---- named and pointer-to-named variants of every primitive kind ----

type myStr string
type myBool bool
type myInt64 int64
type myUint64 uint64
type myFloat64 float64
type myDur time.Duration

// H_C03_named: every kind of primitive setting into named variants of string / bool / int64 /
// uint64 / float64 / time.Duration targets (plain and behind a pointer): the call returns (panic,
// step-bound and allocation monitors) and a nil error means the exact value arrived.
func H_C03_named() {
	c := ucfg.New()
	i, u, b := verif.Int64("i"), verif.Uint64("u"), verif.Bool("b")
	txt := []string{"abc", "", "12", "true", "1s"}[verif.Choice("text", 5)]
	src := verif.Choice("src", 4)
	switch src {
	case 0:
		c.SetString("v", -1, txt)
	case 1:
		c.SetBool("v", -1, b)
	case 2:
		c.SetInt("v", -1, i)
	case 3:
		c.SetUint("v", -1, u)
	}
	ptr := verif.Choice("pointer", 2) == 1
	target := verif.Choice("target", 6)
	lbl := "C03/named/target=" + itoa(target) + "/src=" + itoa(src)
	verif.AllocLimit(1 << 16)
	verif.NoPanic("C03/named: Unpack panics/target="+itoa(target), func() {
		switch target {
		case 0:
			var got myStr
			var err error
			if ptr {
				var t pbox[myStr]
				if err = c.Unpack(&t); err == nil && t.V != nil {
					got = *t.V
				}
			} else {
				var t box[myStr]
				err = c.Unpack(&t)
				got = t.V
			}
			if err == nil && src == 0 {
				verif.Assert(string(got) == txt, lbl)
			}
		case 1:
			var got myBool
			var err error
			if ptr {
				var t pbox[myBool]
				if err = c.Unpack(&t); err == nil && t.V != nil {
					got = *t.V
				}
			} else {
				var t box[myBool]
				err = c.Unpack(&t)
				got = t.V
			}
			if err == nil && src == 1 {
				verif.Assert(bool(got) == b, lbl)
			}
		case 2:
			var got myInt64
			var err error
			if ptr {
				var t pbox[myInt64]
				if err = c.Unpack(&t); err == nil && t.V != nil {
					got = *t.V
				}
			} else {
				var t box[myInt64]
				err = c.Unpack(&t)
				got = t.V
			}
			if err == nil && src == 2 {
				verif.Assert(int64(got) == i, lbl)
			}
			if err == nil && src == 3 {
				verif.Assert(verif.And(got >= 0, uint64(got) == u), lbl)
			}
		case 3:
			var got myUint64
			var err error
			if ptr {
				var t pbox[myUint64]
				if err = c.Unpack(&t); err == nil && t.V != nil {
					got = *t.V
				}
			} else {
				var t box[myUint64]
				err = c.Unpack(&t)
				got = t.V
			}
			if err == nil && src == 3 {
				verif.Assert(uint64(got) == u, lbl)
			}
			if err == nil && src == 2 {
				verif.Assert(verif.And(i >= 0, uint64(got) == uint64(i)), lbl)
			}
		case 4:
			var t box[myFloat64]
			err := c.Unpack(&t)
			if err == nil && src == 2 {
				verif.Assert(float64(t.V) == float64(i), lbl)
			}
		case 5:
			var t box[myDur]
			err := c.Unpack(&t)
			// a named duration is an integer type of its own: the number arrives as that integer
			if err == nil && src == 2 {
				verif.Assert(int64(t.V) == i, lbl)
			}
		}
	})
	verif.Reach("named target")
}

// H_C03_dyn_duration: numbers that reach a time.Duration target through variable expansion
// (a reference, a splice that spells a number, a default value). Concrete boundary table: the
// expansion renders the number as text. A nil error means exactly that many seconds arrived.
func H_C03_dyn_duration() {
	nums := []interface{}{int64(90), int64(-90), int64(maxSec), int64(maxSec + 1), int64(-maxSec - 1), int64(10000000000), int64(-10000000000),
		uint64(1 << 63), uint64(18446744073709551615), 1.5, 1e10, -1e10, 1e300, math.NaN(), math.Inf(1), math.Inf(-1)}
	n := nums[verif.Choice("number", len(nums))]
	opts := []ucfg.Option{ucfg.VarExp, ucfg.PathSep(".")}
	var in map[string]interface{}
	switch verif.Choice("route", 4) {
	case 0:
		in = map[string]interface{}{"r": n, "v": "${r}"}
	case 1:
		in = map[string]interface{}{"r": n, "v": "${missing:${r}}"}
	case 2:
		in = map[string]interface{}{"r": n, "o": map[string]interface{}{"k": "${r}"}, "v": "${o.k}"}
	case 3:
		// a splice that spells the number
		i, ok := n.(int64)
		if !ok {
			return
		}
		in = map[string]interface{}{"hi": i / 1000, "lo": "000", "v": "${hi}${lo}"}
		n = (i / 1000) * 1000
	}
	c, err := ucfg.NewFrom(in, opts...)
	verif.Assume(err == nil)
	var t box[time.Duration]
	err = c.Unpack(&t, opts...)
	verif.Reach("dynamic duration")
	if err != nil {
		return
	}
	exact := false
	switch x := n.(type) {
	case int64:
		exact = x >= -maxSec && x <= maxSec && t.V == time.Duration(x)*time.Second
	case uint64:
		exact = x <= maxSec && t.V == time.Duration(x)*time.Second
	case float64:
		exact = x == x && x > -float64(maxSec) && x < float64(maxSec) && t.V == time.Duration(x*float64(time.Second))
	}
	verif.Assert(exact, "C03/unpack/number through variable expansion -> duration")
}
