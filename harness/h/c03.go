package h

import (
	ucfg "github.com/elastic/go-ucfg"

	"vharness/verif"
)

// H_C03_smoke: float setting read through Int(): either an error or the
// truncated mathematical value.
func H_C03_smoke() {
	f := verif.Float64("f")
	c := ucfg.New()
	c.SetFloat("v", -1, f)
	i, err := c.Int("v", -1)
	if err == nil {
		verif.Reach("float->int ok")
		inRange := verif.And(f > -9223372036854777856.0, f < 9223372036854775808.0)
		verif.Assert(inRange, "C03/getter/float->int64/range")
		verif.Assert(verif.Implies(inRange, float64(i) <= f+1), "C03/getter/float->int64/value")
	} else {
		verif.Reach("float->int error")
	}
}
