package h

// Symbolic configuration trees and the reference semantics written from the
// property statements (DESIGN Appendix B). Shapes are structural choices,
// primitive payloads are symbolic, so one path = one shape and all payloads.

import (
	ucfg "github.com/elastic/go-ucfg"

	"vharness/verif"
)

const (
	kAbsent = iota
	kNil
	kInt
	kBool
	kStr
	kUint
	kCfg // dictionary and/or list part
)

type Node struct {
	Kind int
	I    int64
	U    uint64
	B    bool
	S    string
	Keys []string // dictionary part, in insertion order
	Dict map[string]*Node
	List []*Node
}

func nAbsent() *Node         { return &Node{Kind: kAbsent} }
func nNil() *Node            { return &Node{Kind: kNil} }
func nInt(i int64) *Node     { return &Node{Kind: kInt, I: i} }
func nBool(b bool) *Node     { return &Node{Kind: kBool, B: b} }
func nUint(u uint64) *Node   { return &Node{Kind: kUint, U: u} }
func nStr(s string) *Node    { return &Node{Kind: kStr, S: s} }
func nList(l ...*Node) *Node { return &Node{Kind: kCfg, List: l} }
func nDict() *Node           { return &Node{Kind: kCfg, Dict: map[string]*Node{}} }

func (n *Node) set(k string, v *Node) *Node {
	if n.Dict == nil {
		n.Dict = map[string]*Node{}
	}
	if _, ok := n.Dict[k]; !ok {
		n.Keys = append(n.Keys, k)
	}
	n.Dict[k] = v
	return n
}

func (n *Node) get(k string) *Node {
	if n == nil || n.Dict == nil {
		return nil
	}
	return n.Dict[k]
}

func (n *Node) isCont() bool { return n.Kind == kCfg || n.Kind == kNil }

// empty: absent, nil, or a config without (non-empty) content
func (n *Node) empty() bool {
	if n == nil {
		return true
	}
	switch n.Kind {
	case kAbsent, kNil:
		return true
	case kCfg:
		if len(n.List) > 0 {
			return false
		}
		for _, k := range n.Keys {
			if n.Dict[k].Kind != kAbsent {
				return false
			}
		}
		return true
	}
	return false
}

func (n *Node) dictLen() int {
	c := 0
	for _, k := range n.Keys {
		if n.Dict[k].Kind != kAbsent {
			c++
		}
	}
	return c
}

func (n *Node) clone() *Node {
	if n == nil {
		return nil
	}
	c := &Node{Kind: n.Kind, I: n.I, U: n.U, B: n.B, S: n.S}
	for _, k := range n.Keys {
		c.set(k, n.Dict[k].clone())
	}
	for _, e := range n.List {
		c.List = append(c.List, e.clone())
	}
	return c
}

// genSpec bounds the generator.
type genSpec struct {
	depth   int      // remaining container depth
	keys    []string // dictionary alphabet
	maxList int
	prims   int // number of primitive kinds used: 1 = number, 2 = +bool, 3 = +string
	noNil   bool
	signed  bool // numbers are int64 (normalisation forks on the sign) instead of uint64
	mixed   bool // also generate nodes that carry a dictionary part and a list part at once
}

// genNode draws a node shape by choice and its payload symbolically.
// inDict allows "absent".
func genNode(name string, sp genSpec, inDict bool) *Node {
	kinds := []int{}
	if inDict {
		kinds = append(kinds, kAbsent)
	}
	if !sp.noNil {
		kinds = append(kinds, kNil)
	}
	if sp.signed {
		kinds = append(kinds, kInt)
	} else {
		kinds = append(kinds, kUint)
	}
	if sp.prims >= 2 {
		kinds = append(kinds, kBool)
	}
	if sp.prims >= 3 {
		kinds = append(kinds, kStr)
	}
	nPrim := len(kinds)
	if sp.depth > 0 {
		kinds = append(kinds, kCfg, kCfg+1) // dict flavour, list flavour
		if sp.mixed {
			kinds = append(kinds, kCfg+2) // named settings next to indexed ones
		}
	}
	_ = nPrim
	k := kinds[verif.Choice(name+".kind", len(kinds))]
	switch k {
	case kAbsent:
		return nAbsent()
	case kNil:
		return nNil()
	case kInt:
		return nInt(verif.Int64(name + ".i"))
	case kUint:
		return nUint(verif.Uint64(name + ".u"))
	case kBool:
		return nBool(verif.Bool(name + ".b"))
	case kStr:
		// one symbolic letter keeps strings distinguishable without parser-relevant characters
		b := verif.Byte(name + ".s")
		verif.Assume(verif.And(b >= 'a', b <= 'z'))
		return nStr(string([]byte{b}))
	}
	sub := sp
	sub.depth--
	if k == kCfg {
		n := nDict()
		for _, key := range sp.keys {
			n.set(key, genNode(name+"."+key, sub, true))
		}
		return n
	}
	if k == kCfg+2 {
		// one named setting and one indexed one (spelled with the key "0" in generic data)
		n := nDict()
		n.set(sp.keys[0], genNode(name+"."+sp.keys[0], sub, false))
		n.List = append(n.List, genNode(name+".0", sub, false))
		return n
	}
	n := nList()
	l := verif.Choice(name+".len", sp.maxList+1)
	for i := 0; i < l; i++ {
		n.List = append(n.List, genNode(name+"."+itoa(i), sub, false))
	}
	return n
}

// toGo materialises a node as generic Go data (map[string]interface{}, []interface{}, scalars).
func (n *Node) toGo() interface{} {
	switch n.Kind {
	case kAbsent, kNil:
		return nil
	case kInt:
		return n.I
	case kUint:
		return n.U
	case kBool:
		return n.B
	case kStr:
		return n.S
	}
	if len(n.List) > 0 || n.Dict == nil {
		if n.Dict == nil || n.dictLen() == 0 {
			l := make([]interface{}, 0, len(n.List))
			for _, e := range n.List {
				l = append(l, e.toGo())
			}
			return l
		}
	}
	m := map[string]interface{}{}
	for _, k := range n.Keys {
		if c := n.Dict[k]; c.Kind != kAbsent {
			m[k] = c.toGo()
		}
	}
	for i, e := range n.List {
		m[itoa(i)] = e.toGo()
	}
	return m
}

// toConfigDirect builds the same tree with the low-level API (no normalisation of Go values).
func (n *Node) toConfig() *ucfg.Config {
	c := ucfg.New()
	for _, k := range n.Keys {
		n.Dict[k].storeInto(c, k, -1)
	}
	for i, e := range n.List {
		e.storeInto(c, "", i)
	}
	return c
}

func (n *Node) storeInto(c *ucfg.Config, name string, idx int) {
	switch n.Kind {
	case kAbsent:
	case kNil:
		// a nil setting can only be produced by normalisation
		sub, err := ucfg.NewFrom(map[string]interface{}{"x": nil})
		verif.Assume(err == nil)
		_ = sub
		tmp := map[string]interface{}{}
		if idx >= 0 && name == "" {
			// list element: pad by writing a child and removing? not expressible; use merge of a list
			l := make([]interface{}, idx+1)
			err := c.Merge(l)
			verif.Assume(err == nil)
			return
		}
		tmp[name] = nil
		err = c.Merge(tmp)
		verif.Assume(err == nil)
	case kInt:
		verif.Assume(c.SetInt(name, idx, n.I) == nil)
	case kUint:
		verif.Assume(c.SetUint(name, idx, n.U) == nil)
	case kBool:
		verif.Assume(c.SetBool(name, idx, n.B) == nil)
	case kStr:
		verif.Assume(c.SetString(name, idx, n.S) == nil)
	case kCfg:
		verif.Assume(c.SetChild(name, idx, n.toConfig()) == nil)
	}
}

// ---- comparison of an unpacked generic tree with a model node ----

func isEmptyGo(v interface{}) bool {
	switch x := v.(type) {
	case nil:
		return true
	case map[string]interface{}:
		for _, e := range x {
			if !isEmptyGo(e) {
				return false
			}
		}
		return true
	case []interface{}:
		return len(x) == 0
	}
	return false
}

// eqTree: does the unpacked value equal the model node (numbers by value, nil = empty)?
// The result may be symbolic; nothing forks on payloads.
func eqTree(got interface{}, want *Node) bool {
	if want == nil || want.empty() {
		return isEmptyGo(got)
	}
	switch want.Kind {
	case kInt:
		switch g := got.(type) {
		case int64:
			return g == want.I
		case uint64:
			return verif.And(want.I >= 0, g == uint64(want.I))
		case int:
			return int64(g) == want.I
		}
		return false
	case kUint:
		switch g := got.(type) {
		case uint64:
			return g == want.U
		case int64:
			return verif.And(g >= 0, uint64(g) == want.U)
		}
		return false
	case kBool:
		g, ok := got.(bool)
		if !ok {
			return false
		}
		return g == want.B
	case kStr:
		g, ok := got.(string)
		if !ok {
			return false
		}
		return g == want.S
	}
	// config: a list-only node unpacks as a list (as a map with keys "0","1",.. when it is the root)
	if l, ok := got.([]interface{}); ok {
		if want.dictLen() != 0 || len(l) != len(want.List) {
			return false
		}
		res := true
		for i, e := range want.List {
			res = verif.And(res, eqTree(l[i], e))
		}
		return res
	}
	m, ok := got.(map[string]interface{})
	if !ok {
		return false
	}
	res := true
	seen := map[string]bool{}
	for _, k := range want.Keys {
		seen[k] = true
		res = verif.And(res, eqTree(m[k], want.Dict[k]))
	}
	for i, e := range want.List {
		k := itoa(i)
		seen[k] = true
		res = verif.And(res, eqTree(m[k], e))
	}
	for k, v := range m {
		if !seen[k] && !isEmptyGo(v) {
			return false
		}
	}
	return res
}

// unpackTree returns the generic view of the whole config: the dictionary part
// as a map; the list part of the root (which a map target does not receive) is
// unpacked separately and shown under the keys "0","1",...
func unpackTree(c *ucfg.Config, opts ...ucfg.Option) (interface{}, error) {
	var m map[string]interface{}
	if err := c.Unpack(&m, opts...); err != nil {
		return nil, err
	}
	if c.IsArray() {
		var l []interface{}
		if err := c.Unpack(&l, opts...); err != nil {
			return nil, err
		}
		if m == nil {
			m = map[string]interface{}{}
		}
		for i, e := range l {
			m[itoa(i)] = e
		}
	}
	return m, nil
}

// ---- reference merge semantics (Appendix B.1) ----

const (
	polDefault = iota
	polReplace
	polArrReplace
	polAppend
	polPrepend
	nPolicies
)

var polName = [...]string{"default", "ReplaceValues", "ReplaceArrValues", "AppendValues", "PrependValues"}

func polOpts(p int) []ucfg.Option {
	switch p {
	case polReplace:
		return []ucfg.Option{ucfg.ReplaceValues}
	case polArrReplace:
		return []ucfg.Option{ucfg.ReplaceArrValues}
	case polAppend:
		return []ucfg.Option{ucfg.AppendValues}
	case polPrepend:
		return []ucfg.Option{ucfg.PrependValues}
	}
	return nil
}

// polAt gives the policy in force at a path (C16 overrides it per subtree).
type polFn func(path []string) int

func constPol(p int) polFn { return func([]string) int { return p } }

func mergeVal(pol polFn, path []string, a, b *Node) *Node {
	if b == nil || b.Kind == kAbsent {
		return a
	}
	if a == nil || a.Kind == kAbsent {
		return mergeFresh(pol, path, b)
	}
	if a.isCont() && b.isCont() {
		return mergeCfg(pol, path, a, b)
	}
	return mergeFresh(pol, path, b)
}

// mergeFresh: b arrives where nothing mergeable was; it is taken as is.
func mergeFresh(pol polFn, path []string, b *Node) *Node { return b.clone() }

func asCfg(n *Node) *Node {
	if n.Kind == kCfg {
		return n
	}
	return &Node{Kind: kCfg}
}

func mergeCfg(pol polFn, path []string, a, b *Node) *Node {
	if b.Kind == kNil {
		return a.clone()
	}
	ac, bc := asCfg(a), asCfg(b)
	p := pol(path)
	res := &Node{Kind: kCfg}
	// dictionary part
	switch {
	case bc.dictLen() == 0:
		for _, k := range ac.Keys {
			res.set(k, ac.Dict[k].clone())
		}
	case p == polReplace:
		for _, k := range bc.Keys {
			if bc.Dict[k].Kind != kAbsent {
				res.set(k, mergeVal(pol, append(append([]string{}, path...), k), nil, bc.Dict[k]))
			}
		}
	default:
		for _, k := range ac.Keys {
			res.set(k, ac.Dict[k].clone())
		}
		for _, k := range bc.Keys {
			if bc.Dict[k].Kind == kAbsent {
				continue
			}
			res.set(k, mergeVal(pol, append(append([]string{}, path...), k), ac.get(k), bc.Dict[k]))
		}
	}
	// list part
	switch {
	case len(bc.List) == 0:
		for _, e := range ac.List {
			res.List = append(res.List, e.clone())
		}
	case p == polReplace || p == polArrReplace:
		for _, e := range bc.List {
			res.List = append(res.List, e.clone())
		}
	case p == polAppend:
		for _, e := range ac.List {
			res.List = append(res.List, e.clone())
		}
		for _, e := range bc.List {
			res.List = append(res.List, e.clone())
		}
	case p == polPrepend:
		for _, e := range bc.List {
			res.List = append(res.List, e.clone())
		}
		for _, e := range ac.List {
			res.List = append(res.List, e.clone())
		}
	default:
		for i := 0; i < len(ac.List) || i < len(bc.List); i++ {
			switch {
			case i >= len(bc.List):
				res.List = append(res.List, ac.List[i].clone())
			case i >= len(ac.List):
				res.List = append(res.List, bc.List[i].clone())
			default:
				res.List = append(res.List, mergeVal(pol, append(append([]string{}, path...), itoa(i)), ac.List[i], bc.List[i]))
			}
		}
	}
	return res
}
