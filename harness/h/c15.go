package h

// C15 Path, Parent, FlattenedKeys and diff always describe the actual structure.

import (
	"sort"
	"strings"

	ucfg "github.com/elastic/go-ucfg"
	"github.com/elastic/go-ucfg/diff"

	"vharness/verif"
)

// leafPaths: root-relative dotted paths of the non-nil primitive settings.
func leafPaths(n *Node, prefix string, out *[]string) {
	join := func(k string) string {
		if prefix == "" {
			return k
		}
		return prefix + "." + k
	}
	switch n.Kind {
	case kCfg:
		for _, k := range n.Keys {
			leafPaths(n.Dict[k], join(k), out)
		}
		for i, e := range n.List {
			leafPaths(e, join(itoa(i)), out)
		}
	case kAbsent, kNil:
	default:
		*out = append(*out, prefix)
	}
}

func sortedLeafPaths(n *Node) []string {
	var out []string
	leafPaths(n, "", &out)
	sort.Strings(out)
	return out
}

func eqStrings(a, b []string) bool {
	if len(a) != len(b) {
		return false
	}
	for i := range a {
		if a[i] != b[i] {
			return false
		}
	}
	return true
}

// checkStructure walks every container node of the model, obtains the handle
// through Child and compares Path / Parent with the actual position.
func checkStructure(c *ucfg.Config, n *Node, path string, parent *ucfg.Config, tag string) {
	verif.Assert(c.Path(".") == path, "C15/Path is the actual address/"+tag)
	verif.Assert(c.Parent() == parent, "C15/Parent is the actual container/"+tag)
	for _, k := range n.Keys {
		ch := n.Dict[k]
		if ch.Kind != kCfg {
			continue
		}
		h, err := c.Child(k, -1)
		verif.Assert(err == nil && h != nil, "C15/child handle obtainable/"+tag)
		if err != nil || h == nil {
			continue
		}
		p := k
		if path != "" {
			p = path + "." + k
		}
		checkStructure(h, ch, p, c, tag)
	}
	for i, e := range n.List {
		if e.Kind != kCfg {
			continue
		}
		h, err := c.Child("", i)
		verif.Assert(err == nil && h != nil, "C15/child handle obtainable/"+tag)
		if err != nil || h == nil {
			continue
		}
		p := itoa(i)
		if path != "" {
			p = path + "." + p
		}
		checkStructure(h, e, p, c, tag)
	}
}

func c15Check(c *ucfg.Config, model *Node, tag string) {
	checkStructure(c, model, "", nil, tag)
	want := sortedLeafPaths(model)
	got := c.FlattenedKeys()
	verif.Assert(eqStrings(got, want), "C15/FlattenedKeys are the primitive leaf paths/"+tag)
}

// dictOrList: C15 is stated for configs whose nodes are each a dictionary or a list.
func dictOrList(n *Node) bool {
	if n.Kind != kCfg {
		return true
	}
	if n.dictLen() > 0 && len(n.List) > 0 {
		return false
	}
	for _, k := range n.Keys {
		if !dictOrList(n.Dict[k]) {
			return false
		}
	}
	for _, e := range n.List {
		if !dictOrList(e) {
			return false
		}
	}
	return true
}

func c15PreState() *Node {
	switch verif.Choice("pre", 3) {
	case 0:
		return nDict().set("l", nList(nUint(10), nUint(20), nUint(30))).set("k", nDict().set("g", nDict().set("v", nUint(1))))
	case 1:
		return nDict().set("l", nList(nDict().set("x", nUint(1)), nDict().set("y", nUint(2)), nList(nUint(3)))).set("p", nUint(5))
	default:
		return nDict().set("a", nDict().set("b", nList(nUint(1), nUint(2)))).set("l", nList(nUint(7)))
	}
}

// H_C15_history: histories of removals, writes, policy merges and re-attached children;
// after each step Path / Parent / FlattenedKeys describe the actual structure.
func H_C15_history() {
	model := c15PreState()
	c, err := ucfg.NewFrom(model.toGo())
	verif.Assume(err == nil)
	c15Check(c, model, "initial")
	k := 2
	if verif.Tier() > 0 {
		k = 3
	}
	for s := 0; s < k; s++ {
		p := "op" + itoa(s)
		tag := "after " + p
		switch verif.Choice(p+".kind", 10) {
		case 9: // an object is emptied by removals and then receives list elements (and the other way round)
			h, err := c.Child("k", -1)
			n := model.get("k")
			if err != nil || n == nil || n.Kind != kCfg || len(n.List) > 0 {
				return
			}
			for _, key := range append([]string{}, n.Keys...) {
				removed, err := h.Remove(key, -1)
				verif.Assert(err == nil && removed, "C15/emptying an object accepted")
			}
			verif.Assert(h.Merge([]interface{}{uint64(1), uint64(2)}) == nil, "C15/merge of a list into an emptied object accepted")
			model.set("k", nList(nUint(1), nUint(2)))
			verif.Reach("emptied object became a list")
		case 8: // the root (or an ancestor) stored below itself through intermediate names that do not exist yet
			snapshot := model.clone()
			if verif.Choice(p+".what", 2) == 0 {
				verif.Assert(c.SetChild("n.m", -1, c, ucfg.PathSep(".")) == nil, "C15/storing the root below itself accepted")
				if n := model.get("n"); n != nil && n.Kind == kCfg {
					n.set("m", snapshot)
				} else {
					model.set("n", nDict().set("m", snapshot))
				}
			} else {
				h, err := c.Child("l", -1)
				verif.Assume(err == nil)
				verif.Assert(h.SetChild("", 0, c) == nil, "C15/storing the root in its own list accepted")
				l := model.get("l")
				if len(l.List) == 0 {
					l.List = append(l.List, snapshot)
				} else {
					l.List[0] = snapshot
				}
			}
			verif.Reach("stored below itself")
		case 6: // the config merged into itself (all policies): the operands are the config and the config
			pol := verif.Choice(p+".pol", nPolicies)
			verif.Assert(c.Merge(c, polOpts(pol)...) == nil, "C15/self merge accepted")
			model = mergeVal(constPol(pol), nil, model, model.clone())
			verif.Reach("self merge")
		case 7: // a child merged into the root, and the root merged into a child
			h, err := c.Child("l", -1)
			verif.Assume(err == nil)
			pol := []int{polAppend, polPrepend, polDefault}[verif.Choice(p+".pol", 3)]
			l := model.get("l")
			if verif.Choice(p+".dir", 2) == 0 {
				verif.Assert(h.Merge(h, polOpts(pol)...) == nil, "C15/self merge of a list child accepted")
				model.set("l", mergeVal(constPol(pol), nil, l, l.clone()))
			} else {
				verif.Assert(c.Merge(map[string]interface{}{"l2": h}, polOpts(pol)...) == nil, "C15/merge of an own child accepted")
				model = mergeVal(constPol(pol), nil, model, nDict().set("l2", l.clone()))
			}
		case 0: // remove a list element (start / middle / end)
			idx := verif.Choice(p+".idx", 3)
			removed, err := c.Remove("l", idx)
			mrem, ok := modelRemove(model, parseAddr("l", idx, false))
			verif.Assert((err == nil) == ok && removed == mrem, "C15/remove outcome")
			if mrem {
				verif.Reach("removed from a list")
			}
		case 1: // append / prepend merge that moves elements
			pol := []int{polAppend, polPrepend}[verif.Choice(p+".pol", 2)]
			b := nDict().set("l", nList(nUint(verif.Uint64(p+".u")), nDict().set("z", nUint(9))))
			verif.Assert(c.Merge(b.toGo(), polOpts(pol)...) == nil, "C15/merge accepted")
			model = mergeVal(constPol(pol), nil, model, b)
			verif.Reach("policy merge")
		case 2: // write below a list element / nested name
			name := []string{"l", "k", "a"}[verif.Choice(p+".name", 3)]
			idx := verif.Choice(p+".idx", 3)
			before := model.clone()
			err := c.SetUint(name, idx, 77)
			if !modelSet(model, parseAddr(name, idx, false), nUint(77)) {
				model = before
				verif.Assert(err != nil, "C15/set through primitive fails")
			} else {
				verif.Assert(err == nil, "C15/set accepted")
			}
		case 3: // attach a fresh child
			ch := ucfg.New()
			ch.SetUint("v", -1, 3)
			verif.Assert(c.SetChild("n", -1, ch) == nil, "C15/SetChild accepted")
			model.set("n", nDict().set("v", nUint(3)))
		case 4: // re-attach a child that already has a parent, under another name
			src := []string{"k", "a"}[verif.Choice(p+".src", 2)]
			n, st := modelGet(model, parseAddr(src, -1, false))
			if st != stOK || n.Kind != kCfg {
				return
			}
			h, err := c.Child(src, -1)
			verif.Assume(err == nil)
			verif.Assert(c.SetChild("z", -1, h) == nil, "C15/re-attach accepted")
			model.set("z", n.clone())
			verif.Reach("re-attached child")
		case 5: // remove a named subtree
			name := []string{"k", "a", "p"}[verif.Choice(p+".name", 3)]
			removed, err := c.Remove(name, -1)
			mrem, ok := modelRemove(model, parseAddr(name, -1, false))
			verif.Assert((err == nil) == ok && removed == mrem, "C15/remove outcome")
		}
		if !dictOrList(model) {
			return
		}
		c15Check(c, model, tag)
	}
	verif.Reach("history checked")
}

// H_C15_diff: CompareConfigs partitions the leaf paths into kept / added / removed.
func H_C15_diff() {
	sp := genSpec{depth: 1, keys: []string{"a", "b"}, maxList: 2, prims: 1, noNil: false}
	x := nDict().set("k", genNode("X.k", sp, true)).set("s", nUint(verif.Uint64("X.s")))
	y := nDict().set("k", genNode("Y.k", sp, true)).set("t", nUint(verif.Uint64("Y.t")))
	cx, err := ucfg.NewFrom(x.toGo())
	verif.Assume(err == nil)
	cy, err := ucfg.NewFrom(y.toGo())
	verif.Assume(err == nil)
	d := diff.CompareConfigs(cx, cy)
	px, py := sortedLeafPaths(x), sortedLeafPaths(y)
	inX, inY := map[string]bool{}, map[string]bool{}
	for _, p := range px {
		inX[p] = true
	}
	for _, p := range py {
		inY[p] = true
	}
	var keep, add, rem []string
	for _, p := range px {
		if inY[p] {
			keep = append(keep, p)
		} else {
			rem = append(rem, p)
		}
	}
	for _, p := range py {
		if !inX[p] {
			add = append(add, p)
		}
	}
	srt := func(l []string) []string {
		o := append([]string{}, l...)
		sort.Strings(o)
		return o
	}
	verif.Reach("diff compared")
	verif.Assert(eqStrings(srt(d[diff.Keep]), keep), "C15/diff kept")
	verif.Assert(eqStrings(srt(d[diff.Add]), add), "C15/diff added")
	verif.Assert(eqStrings(srt(d[diff.Remove]), rem), "C15/diff removed")
	// a config compared with an equal one reports no change
	cx2, err := ucfg.NewFrom(x.toGo())
	verif.Assume(err == nil)
	d2 := diff.CompareConfigs(cx, cx2)
	verif.Assert(!d2.HasChanged(), "C15/diff of equal configs reports no change")
	_ = strings.Join
}
