package h

// C02 Variable expansion is late-bound substitution with a fixed lookup order.

import (
	"strings"

	ucfg "github.com/elastic/go-ucfg"
	"github.com/elastic/go-ucfg/parse"

	"vharness/verif"
)

// where a name can be defined, in lookup order
const (
	plRoot = iota
	plEnv2 // added last, looked up first among the environments
	plEnv1
	plRes2 // added last, asked first among the resolvers
	plRes1
	nPlaces
)

var placeVal = [...]string{"R", "E2", "E1", "S2", "S1"}

// H_C02_lookup: placement of the referenced name among root config, two Env configs and two
// resolvers; operators; single- and multi-segment names; read through String, Unpack, Child.
func H_C02_lookup() {
	name := []string{"x", "o.k"}[verif.Choice("name", 2)]
	// defined[p]: 0 unset, 1 set to a non-empty value, 2 set but empty (only for some places)
	var defined [nPlaces]int
	for p := 0; p < nPlaces; p++ {
		n := 2
		if p == plRoot || p == plRes2 {
			n = 3
		}
		defined[p] = verif.Choice("defined."+itoa(p), n)
	}
	mk := func(p int) map[string]interface{} {
		if defined[p] == 0 {
			return map[string]interface{}{"other": "1"}
		}
		v := placeVal[p]
		if defined[p] == 2 {
			v = ""
		}
		if name == "x" {
			return map[string]interface{}{"x": v, "other": "1"}
		}
		return map[string]interface{}{"o": map[string]interface{}{"k": v}, "other": "1"}
	}
	resolver := func(p int) func(string) (string, parse.Config, error) {
		return func(n string) (string, parse.Config, error) {
			if n == name && defined[p] != 0 {
				if defined[p] == 2 {
					return "", parse.DefaultConfig, nil
				}
				return placeVal[p], parse.DefaultConfig, nil
			}
			return "", parse.DefaultConfig, ucfg.ErrMissing
		}
	}
	base := []ucfg.Option{ucfg.PathSep("."), ucfg.VarExp}
	env1, err := ucfg.NewFrom(mk(plEnv1), base...)
	verif.Assume(err == nil)
	env2, err := ucfg.NewFrom(mk(plEnv2), base...)
	verif.Assume(err == nil)
	opts := append([]ucfg.Option{}, base...)
	opts = append(opts, ucfg.Env(env1), ucfg.Env(env2), ucfg.Resolve(resolver(plRes1)), ucfg.Resolve(resolver(plRes2)))

	// expected binding
	val, set := "", false
	for p := 0; p < nPlaces; p++ {
		if defined[p] != 0 {
			set = true
			if defined[p] == 1 {
				val = placeVal[p]
			}
			break
		}
	}
	nonEmpty := set && val != ""

	form := verif.Choice("form", 8)
	var text, want string
	wantErr := false
	switch form {
	case 0:
		text = "${" + name + "}"
		want, wantErr = val, !set
	case 1:
		text = "${" + name + ":dflt}"
		if nonEmpty {
			want = val
		} else {
			want = "dflt"
		}
	case 2:
		text = "${" + name + ":+alt}"
		if nonEmpty {
			want = "alt"
		} else if set {
			if defined[plRoot] != 2 {
				return // a resolver that answers with an empty string: "set" or "unset" is not pinned down
			}
			want = "alt" // the setting exists in the configuration: it is set, although empty
		}
	case 3:
		text = "${" + name + ":?custom message}"
		want, wantErr = val, !nonEmpty
	case 4:
		text = "pre-${" + name + "}-post"
		want, wantErr = "pre-"+val+"-post", !set
	case 5:
		text = "$${" + name + "}"
		want = "${" + name + "}"
	case 6:
		text = "a$}b-${" + name + ":d}"
		if nonEmpty {
			want = "a}b-" + val
		} else {
			want = "a}b-d"
		}
	case 7:
		// the alternative operator on a name that is set to an object / list (it has no text form, but it is set)
		text = "${other_obj:+alt}-${other_list:+alt}"
		want = "alt-alt"
	}
	if (form == 0 || form == 4) && set && val == "" {
		return // a plain reference to a set-but-empty value: empty text or "unset" is not pinned down
	}
	// the referencing setting is merged before or after the referenced one (late binding)
	c := ucfg.New()
	first := verif.Choice("merge-order", 2)
	root := mk(plRoot)
	root["other_obj"] = map[string]interface{}{"k": "v"}
	root["other_list"] = []interface{}{1, 2}
	parts := []map[string]interface{}{{"v": text, "sub": map[string]interface{}{"w": text}, "lst": []interface{}{text, map[string]interface{}{"w": text}}}, root}
	if first == 1 {
		parts[0], parts[1] = parts[1], parts[0]
	}
	verif.Assert(c.Merge(parts[0], opts...) == nil, "C02/merge accepted")
	verif.Assert(c.Merge(parts[1], opts...) == nil, "C02/merge accepted")

	// the reading call may use another path separator than the one the configuration was built with:
	// the names inside ${...} were written for the build-time separator
	listPath := "lst.1.w"
	if verif.Choice("read-sep", 2) == 1 {
		ropts := []ucfg.Option{ucfg.PathSep("/")}
		ropts = append(ropts, opts[1:]...)
		opts = ropts
		listPath = "lst/1/w"
	}
	label := func(s string) string { return "C02/" + s + "/form" + itoa(form) }
	switch verif.Choice("read", 5) {
	case 3, 4:
		// the referencing setting lives inside a list (element / object in a list)
		var got string
		var err error
		if verif.Choice("list-route", 2) == 0 {
			got, err = c.String("lst", 0, opts...)
		} else {
			got, err = c.String(listPath, -1, opts...)
		}
		if wantErr {
			verif.Assert(err != nil, label("read inside a list fails when the reference cannot be resolved"))
		} else {
			verif.Assert(err == nil && got == want, label("reference inside a list resolves from the root of the merged config"))
		}
	case 0:
		got, err := c.String("v", -1, opts...)
		if wantErr {
			verif.Reach("expected failure")
			verif.Assert(err != nil, label("String fails when the reference cannot be resolved"))
			if err != nil && form == 3 {
				ue, ok := err.(ucfg.Error)
				verif.Assert(ok && ue.Reason() != nil && strings.Contains(ue.Reason().Error(), "custom message"), label(":? fails with the given message"))
			}
		} else {
			verif.Reach("expected value")
			verif.Assert(err == nil && got == want, label("String yields the substituted text"))
		}
	case 1:
		var m map[string]interface{}
		err := c.Unpack(&m, opts...)
		if wantErr {
			verif.Assert(err != nil, label("Unpack fails when the reference cannot be resolved"))
		} else {
			verif.Assert(err == nil, label("Unpack succeeds"))
			if err == nil {
				verif.Assert(m["v"] == want || (want == "" && m["v"] == nil), label("Unpack yields the substituted text"))
			}
		}
	case 2:
		sub, err := c.Child("sub", -1, opts...)
		verif.Assert(err == nil, "C02/child obtainable")
		if err != nil {
			return
		}
		got, err := sub.String("w", -1, opts...)
		if wantErr {
			verif.Assert(err != nil, label("read through a child fails when the reference cannot be resolved"))
		} else {
			verif.Assert(err == nil && got == want, label("read through a child resolves from the root"))
		}
	}
	verif.Reach("lookup checked")
}

// H_C02_typed: a setting that is exactly one reference takes the referenced value with its type.
func H_C02_typed() {
	opts := []ucfg.Option{ucfg.PathSep("."), ucfg.VarExp}
	i := verif.Int64("i")
	b := verif.Bool("b")
	c, err := ucfg.NewFrom(map[string]interface{}{
		"n": i, "t": b, "o": map[string]interface{}{"k": "deep", "l": []interface{}{i, "s"}},
		"rn": "${n}", "rt": "${t}", "ro": "${o}", "rl": "${o.l}", "rl0": "${o.l.0}", "sel": "cn", "cn": 41, "nested": "${${sel}}",
	}, opts...)
	verif.Assume(err == nil)
	switch verif.Choice("case", 6) {
	case 0:
		got, err := c.Int("rn", -1, opts...)
		verif.Assert(verif.And(err == nil, got == i), "C02/typed: single reference to an int reads as that int")
	case 1:
		got, err := c.Bool("rt", -1, opts...)
		verif.Assert(verif.And(err == nil, got == b), "C02/typed: single reference to a bool reads as that bool")
	case 2:
		ch, err := c.Child("ro", -1, opts...)
		verif.Assert(err == nil && ch != nil, "C02/typed: single reference to an object reads as an object")
		if err == nil && ch != nil {
			s, err := ch.String("k", -1, opts...)
			verif.Assert(err == nil && s == "deep", "C02/typed: referenced object content")
		}
	case 3:
		n, err := c.CountField("rl", opts...)
		verif.Assert(err == nil && n == 2, "C02/typed: single reference to a list reads as a list")
	case 4:
		got, err := c.Int("rl0", -1, opts...)
		verif.Assert(verif.And(err == nil, got == i), "C02/typed: reference into a list element")
	case 5:
		// (concrete number: the computed-name form renders the value as text and re-parses it)
		got, err := c.Int("nested", -1, opts...)
		verif.Assert(err == nil && got == 41, "C02/typed: reference whose name is itself a reference")
	}
	// late binding: a later merge changes what the reference yields
	j := verif.Int64("j")
	verif.Assert(c.Merge(map[string]interface{}{"n": j}, opts...) == nil, "C02/merge accepted")
	got, err := c.Int("rn", -1, opts...)
	verif.Assert(verif.And(err == nil, got == j), "C02/references observe values merged in later")
	verif.Reach("typed checked")
}

// ---- expression trees: any nesting of literals, references, operators and escapes ----

type c02Expr struct {
	kind int // 0 literal, 1 ${n}, 2 ${n:D}, 3 ${n:+A}, 4 ${n:?msg}, 5 splice L R, 6 ${${sel}} (computed name)
	lit  int
	name string
	a, b *c02Expr
}

var c02Lits = []struct{ text, val string }{{"L", "L"}, {"p$$q", "p$q"}, {"p$}q", "p}q"}}

// names: x set in the root, y only in an Env config, z only known to a resolver,
// e set in the root to the empty string, u unset everywhere
var c02Names = []string{"x", "y", "e", "u", "z"}

func c02Binding(n string) (val string, set bool) {
	switch n {
	case "x":
		return "X", true
	case "y":
		return "Y", true
	case "z":
		return "Z", true
	case "e":
		return "", true
	}
	return "", false
}

func genC02Expr(id string, depth int, nNames int, fullSplice bool) *c02Expr {
	kinds := 2
	if depth > 0 {
		kinds = 7
	}
	e := &c02Expr{kind: verif.Choice(id+".kind", kinds)}
	switch e.kind {
	case 0:
		e.lit = verif.Choice(id+".lit", len(c02Lits))
	case 1, 4:
		e.name = c02Names[verif.Choice(id+".name", nNames)]
	case 2, 3:
		e.name = c02Names[verif.Choice(id+".name", nNames)]
		e.a = genC02Expr(id+".arg", depth-1, nNames, fullSplice)
	case 5:
		e.a = genC02Expr(id+".l", depth-1, nNames, fullSplice)
		if fullSplice {
			e.b = genC02Expr(id+".r", depth-1, nNames, fullSplice)
		} else {
			e.b = genC02Expr(id+".r", 0, nNames, fullSplice)
		}
	}
	return e
}

func (e *c02Expr) text() string {
	switch e.kind {
	case 0:
		return c02Lits[e.lit].text
	case 1:
		return "${" + e.name + "}"
	case 2:
		return "${" + e.name + ":" + e.a.text() + "}"
	case 3:
		return "${" + e.name + ":+" + e.a.text() + "}"
	case 4:
		return "${" + e.name + ":?custom message}"
	case 5:
		return e.a.text() + "-" + e.b.text()
	}
	return "${${sel}}"
}

const (
	c02OK = iota
	c02Err
	c02Open // not pinned down by the statement
)

// eval: the statement's semantics (operands of operators are only evaluated when they are used).
func (e *c02Expr) eval() (string, int) {
	switch e.kind {
	case 0:
		return c02Lits[e.lit].val, c02OK
	case 1:
		v, set := c02Binding(e.name)
		if !set {
			return "", c02Err
		}
		if v == "" {
			return "", c02Open // plain reference to a set-but-empty value
		}
		return v, c02OK
	case 2:
		if v, _ := c02Binding(e.name); v != "" {
			return v, c02OK
		}
		return e.a.eval()
	case 3:
		if _, set := c02Binding(e.name); set {
			return e.a.eval()
		}
		return "", c02OK
	case 4:
		if v, _ := c02Binding(e.name); v != "" {
			return v, c02OK
		}
		return "", c02Err
	case 5:
		l, sl := e.a.eval()
		r, sr := e.b.eval()
		if sl == c02Open || sr == c02Open {
			return "", c02Open
		}
		if sl == c02Err || sr == c02Err {
			return "", c02Err
		}
		return l + "-" + r, c02OK
	}
	return "X", c02OK // ${${sel}} with sel = "x"
}

// H_C02_expr: expression trees of depth <= 2 against the evaluator written from the statement.
func H_C02_expr() {
	nNames, full := 4, false
	if verif.Tier() > 0 {
		nNames, full = 5, true
	}
	e := genC02Expr("E", 2, nNames, full)
	want, st := e.eval()
	if st == c02Open {
		return
	}
	base := []ucfg.Option{ucfg.PathSep("."), ucfg.VarExp}
	env, err := ucfg.NewFrom(map[string]interface{}{"y": "Y"}, base...)
	verif.Assume(err == nil)
	resolver := func(n string) (string, parse.Config, error) {
		if n == "z" {
			return "Z", parse.DefaultConfig, nil
		}
		return "", parse.DefaultConfig, ucfg.ErrMissing
	}
	opts := append(append([]ucfg.Option{}, base...), ucfg.Env(env), ucfg.Resolve(resolver))
	text := e.text()
	parts := []map[string]interface{}{
		{"v": text, "sub": map[string]interface{}{"w": text}},
		{"x": "X", "e": "", "sel": "x"},
	}
	route := verif.Choice("route", 3)
	if route == 1 {
		parts[0], parts[1] = parts[1], parts[0]
	}
	c := ucfg.New()
	verif.Assert(c.Merge(parts[0], opts...) == nil && c.Merge(parts[1], opts...) == nil, "C02/expr: merges accepted")
	var got string
	var gerr error
	switch route {
	case 0, 1:
		got, gerr = c.String("v", -1, opts...)
	case 2:
		sub, err := c.Child("sub", -1, opts...)
		verif.Assert(err == nil, "C02/expr: child obtainable")
		if err != nil {
			return
		}
		got, gerr = sub.String("w", -1, opts...)
	}
	verif.Reach("expression evaluated")
	if st == c02Err {
		verif.Reach("expression must fail")
		verif.Assert(gerr != nil, "C02/expr: evaluation fails when a used reference cannot be resolved (or :? applies)")
	} else {
		verif.Assert(gerr == nil && got == want, "C02/expr: nested expression yields the substituted text")
	}
}
