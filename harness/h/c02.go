package h

// C02 Variable expansion is late-bound substitution with a fixed lookup order.

import (
	"strings"

	ucfg "github.com/elastic/go-ucfg"
	"github.com/elastic/go-ucfg/parse"

	"vharness/verif"
)

// where a name can be defined, in lookup order
const (
	plRoot = iota
	plEnv2 // added last, looked up first among the environments
	plEnv1
	plRes2 // added last, asked first among the resolvers
	plRes1
	nPlaces
)

var placeVal = [...]string{"R", "E2", "E1", "S2", "S1"}

// H_C02_lookup: placement of the referenced name among root config, two Env configs and two
// resolvers; operators; single- and multi-segment names; read through String, Unpack, Child.
func H_C02_lookup() {
	name := []string{"x", "o.k"}[verif.Choice("name", 2)]
	// defined[p]: 0 unset, 1 set to a non-empty value, 2 set but empty (only for some places)
	var defined [nPlaces]int
	for p := 0; p < nPlaces; p++ {
		n := 2
		if p == plRoot || p == plRes2 {
			n = 3
		}
		defined[p] = verif.Choice("defined."+itoa(p), n)
	}
	mk := func(p int) map[string]interface{} {
		if defined[p] == 0 {
			return map[string]interface{}{"other": "1"}
		}
		v := placeVal[p]
		if defined[p] == 2 {
			v = ""
		}
		if name == "x" {
			return map[string]interface{}{"x": v, "other": "1"}
		}
		return map[string]interface{}{"o": map[string]interface{}{"k": v}, "other": "1"}
	}
	resolver := func(p int) func(string) (string, parse.Config, error) {
		return func(n string) (string, parse.Config, error) {
			if n == name && defined[p] != 0 {
				if defined[p] == 2 {
					return "", parse.DefaultConfig, nil
				}
				return placeVal[p], parse.DefaultConfig, nil
			}
			return "", parse.DefaultConfig, ucfg.ErrMissing
		}
	}
	base := []ucfg.Option{ucfg.PathSep("."), ucfg.VarExp}
	env1, err := ucfg.NewFrom(mk(plEnv1), base...)
	verif.Assume(err == nil)
	env2, err := ucfg.NewFrom(mk(plEnv2), base...)
	verif.Assume(err == nil)
	opts := append([]ucfg.Option{}, base...)
	opts = append(opts, ucfg.Env(env1), ucfg.Env(env2), ucfg.Resolve(resolver(plRes1)), ucfg.Resolve(resolver(plRes2)))

	// expected binding
	val, set := "", false
	for p := 0; p < nPlaces; p++ {
		if defined[p] != 0 {
			set = true
			if defined[p] == 1 {
				val = placeVal[p]
			}
			break
		}
	}
	nonEmpty := set && val != ""

	form := verif.Choice("form", 8)
	var text, want string
	wantErr := false
	switch form {
	case 0:
		text = "${" + name + "}"
		want, wantErr = val, !set
	case 1:
		text = "${" + name + ":dflt}"
		if nonEmpty {
			want = val
		} else {
			want = "dflt"
		}
	case 2:
		text = "${" + name + ":+alt}"
		if nonEmpty {
			want = "alt"
		} else if set {
			if defined[plRoot] != 2 {
				return // a resolver that answers with an empty string: "set" or "unset" is not pinned down
			}
			want = "alt" // the setting exists in the configuration: it is set, although empty
		}
	case 3:
		text = "${" + name + ":?custom message}"
		want, wantErr = val, !nonEmpty
	case 4:
		text = "pre-${" + name + "}-post"
		want, wantErr = "pre-"+val+"-post", !set
	case 5:
		text = "$${" + name + "}"
		want = "${" + name + "}"
	case 6:
		text = "a$}b-${" + name + ":d}"
		if nonEmpty {
			want = "a}b-" + val
		} else {
			want = "a}b-d"
		}
	case 7:
		// the alternative operator on a name that is set to an object / list (it has no text form, but it is set)
		text = "${other_obj:+alt}-${other_list:+alt}"
		want = "alt-alt"
	}
	if (form == 0 || form == 4) && set && val == "" {
		return // a plain reference to a set-but-empty value: empty text or "unset" is not pinned down
	}
	// the referencing setting is merged before or after the referenced one (late binding)
	c := ucfg.New()
	first := verif.Choice("merge-order", 2)
	root := mk(plRoot)
	root["other_obj"] = map[string]interface{}{"k": "v"}
	root["other_list"] = []interface{}{1, 2}
	parts := []map[string]interface{}{{"v": text, "sub": map[string]interface{}{"w": text}, "lst": []interface{}{text, map[string]interface{}{"w": text}}}, root}
	if first == 1 {
		parts[0], parts[1] = parts[1], parts[0]
	}
	verif.Assert(c.Merge(parts[0], opts...) == nil, "C02/merge accepted")
	verif.Assert(c.Merge(parts[1], opts...) == nil, "C02/merge accepted")

	label := func(s string) string { return "C02/" + s + "/form" + itoa(form) }
	switch verif.Choice("read", 5) {
	case 3, 4:
		// the referencing setting lives inside a list (element / object in a list)
		var got string
		var err error
		if verif.Choice("list-route", 2) == 0 {
			got, err = c.String("lst", 0, opts...)
		} else {
			got, err = c.String("lst.1.w", -1, opts...)
		}
		if wantErr {
			verif.Assert(err != nil, label("read inside a list fails when the reference cannot be resolved"))
		} else {
			verif.Assert(err == nil && got == want, label("reference inside a list resolves from the root of the merged config"))
		}
	case 0:
		got, err := c.String("v", -1, opts...)
		if wantErr {
			verif.Reach("expected failure")
			verif.Assert(err != nil, label("String fails when the reference cannot be resolved"))
			if err != nil && form == 3 {
				ue, ok := err.(ucfg.Error)
				verif.Assert(ok && ue.Reason() != nil && strings.Contains(ue.Reason().Error(), "custom message"), label(":? fails with the given message"))
			}
		} else {
			verif.Reach("expected value")
			verif.Assert(err == nil && got == want, label("String yields the substituted text"))
		}
	case 1:
		var m map[string]interface{}
		err := c.Unpack(&m, opts...)
		if wantErr {
			verif.Assert(err != nil, label("Unpack fails when the reference cannot be resolved"))
		} else {
			verif.Assert(err == nil, label("Unpack succeeds"))
			if err == nil {
				verif.Assert(m["v"] == want || (want == "" && m["v"] == nil), label("Unpack yields the substituted text"))
			}
		}
	case 2:
		sub, err := c.Child("sub", -1, opts...)
		verif.Assert(err == nil, "C02/child obtainable")
		if err != nil {
			return
		}
		got, err := sub.String("w", -1, opts...)
		if wantErr {
			verif.Assert(err != nil, label("read through a child fails when the reference cannot be resolved"))
		} else {
			verif.Assert(err == nil && got == want, label("read through a child resolves from the root"))
		}
	}
	verif.Reach("lookup checked")
}

// H_C02_typed: a setting that is exactly one reference takes the referenced value with its type.
func H_C02_typed() {
	opts := []ucfg.Option{ucfg.PathSep("."), ucfg.VarExp}
	i := verif.Int64("i")
	b := verif.Bool("b")
	c, err := ucfg.NewFrom(map[string]interface{}{
		"n": i, "t": b, "o": map[string]interface{}{"k": "deep", "l": []interface{}{i, "s"}},
		"rn": "${n}", "rt": "${t}", "ro": "${o}", "rl": "${o.l}", "rl0": "${o.l.0}", "sel": "cn", "cn": 41, "nested": "${${sel}}",
	}, opts...)
	verif.Assume(err == nil)
	switch verif.Choice("case", 6) {
	case 0:
		got, err := c.Int("rn", -1, opts...)
		verif.Assert(verif.And(err == nil, got == i), "C02/typed: single reference to an int reads as that int")
	case 1:
		got, err := c.Bool("rt", -1, opts...)
		verif.Assert(verif.And(err == nil, got == b), "C02/typed: single reference to a bool reads as that bool")
	case 2:
		ch, err := c.Child("ro", -1, opts...)
		verif.Assert(err == nil && ch != nil, "C02/typed: single reference to an object reads as an object")
		if err == nil && ch != nil {
			s, err := ch.String("k", -1, opts...)
			verif.Assert(err == nil && s == "deep", "C02/typed: referenced object content")
		}
	case 3:
		n, err := c.CountField("rl", opts...)
		verif.Assert(err == nil && n == 2, "C02/typed: single reference to a list reads as a list")
	case 4:
		got, err := c.Int("rl0", -1, opts...)
		verif.Assert(verif.And(err == nil, got == i), "C02/typed: reference into a list element")
	case 5:
		// (concrete number: the computed-name form renders the value as text and re-parses it)
		got, err := c.Int("nested", -1, opts...)
		verif.Assert(err == nil && got == 41, "C02/typed: reference whose name is itself a reference")
	}
	// late binding: a later merge changes what the reference yields
	j := verif.Int64("j")
	verif.Assert(c.Merge(map[string]interface{}{"n": j}, opts...) == nil, "C02/merge accepted")
	got, err := c.Int("rn", -1, opts...)
	verif.Assert(verif.And(err == nil, got == j), "C02/references observe values merged in later")
	verif.Reach("typed checked")
}
