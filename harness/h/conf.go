package h

// Conformance functions: deterministic runs through the public API whose
// printable digests must be identical natively and inside the engine
// (concrete mode). They validate the translator (DESIGN 2.10).

import (
	"fmt"
	"regexp"
	"sort"
	"strings"
	"time"

	ucfg "github.com/elastic/go-ucfg"
	"github.com/elastic/go-ucfg/cfgutil"
	"github.com/elastic/go-ucfg/diff"
	"github.com/elastic/go-ucfg/flag"
	"github.com/elastic/go-ucfg/parse"
)

func unpackGeneric(c *ucfg.Config, opts ...ucfg.Option) string {
	var m map[string]interface{}
	if err := c.Unpack(&m, opts...); err != nil {
		return errStr(err)
	}
	return Dump(m)
}

func Conf_getset() string {
	var out []string
	c := ucfg.New()
	out = append(out, errStr(c.SetInt("a", -1, 42)))
	out = append(out, errStr(c.SetString("b.c", -1, "hello", ucfg.PathSep("."))))
	out = append(out, errStr(c.SetBool("l", 2, true)))
	out = append(out, errStr(c.SetFloat("f", -1, 2.5)))
	out = append(out, errStr(c.SetUint("u", -1, 1<<63)))
	i, err := c.Int("a", -1)
	out = append(out, fmt.Sprint(i, errStr(err)))
	s, err := c.String("b.c", -1, ucfg.PathSep("."))
	out = append(out, fmt.Sprint(s, errStr(err)))
	b, err := c.Bool("l", 2)
	out = append(out, fmt.Sprint(b, errStr(err)))
	_, err = c.Bool("l", 1)
	out = append(out, errStr(err))
	_, err = c.Int("u", -1)
	out = append(out, errStr(err))
	u, err := c.Uint("u", -1)
	out = append(out, fmt.Sprint(u, errStr(err)))
	f, err := c.Float("a", -1)
	out = append(out, fmt.Sprint(f, errStr(err)))
	n, err := c.CountField("l")
	out = append(out, fmt.Sprint(n, errStr(err)))
	h, err := c.Has("b.c", -1, ucfg.PathSep("."))
	out = append(out, fmt.Sprint(h, errStr(err)))
	h, err = c.Has("a.c", -1, ucfg.PathSep("."))
	out = append(out, fmt.Sprint(h, errStr(err)))
	ch, err := c.Child("b", -1)
	out = append(out, errStr(err))
	if ch != nil {
		out = append(out, ch.Path("."), fmt.Sprint(ch.Parent() == c))
		out = append(out, errStr(ch.SetInt("d", -1, 7)))
	}
	ok, err := c.Remove("l", 0)
	out = append(out, fmt.Sprint(ok, errStr(err)))
	fields := c.GetFields()
	sort.Strings(fields)
	out = append(out, fmt.Sprint(fields))
	out = append(out, fmt.Sprint(c.FlattenedKeys()))
	out = append(out, unpackGeneric(c))
	out = append(out, fmt.Sprint(c.IsDict(), c.IsArray()))
	sub := ucfg.New()
	sub.SetString("x", -1, "y")
	out = append(out, errStr(c.SetChild("sub", -1, sub)))
	out = append(out, unpackGeneric(c))
	return strings.Join(out, "\n")
}

type confInner struct {
	X int    `config:"x"`
	S string `config:"s"`
}

type confStruct struct {
	A     int                    `config:"a"`
	B     string                 `config:"b"`
	C     []int                  `config:"c"`
	D     map[string]interface{} `config:"d"`
	E     confInner              `config:"e"`
	F     *confInner             `config:"f"`
	G     time.Duration          `config:"g"`
	H     float64
	I     uint8
	J     bool      `config:"j.k"`
	Inl   confInner `config:",inline"`
	Ign   int       `config:",ignore"`
	priv  int
	Arr   [2]string            `config:"arr"`
	Re    *regexp.Regexp       `config:"re"`
	L     []confInner          `config:"l"`
	M     map[string]confInner `config:"m"`
	Cfg   *ucfg.Config         `config:"cfg"`
	Iface interface{}          `config:"iface"`
}

func Conf_newfrom() string {
	var out []string
	inputs := []interface{}{
		map[string]interface{}{"a": 1, "b": "x", "c": []int{1, 2, 3}, "d": map[string]interface{}{"e": nil, "f": 1.5}},
		map[string]interface{}{"a.b": 1, "a.c": 2, "l.1": "x"},
		map[interface{}]interface{}{"k": uint8(3), "m": map[interface{}]interface{}{"n": true}},
		map[string]int{"x": 1, "y": 2},
		map[string][]string{"x": {"a", "b"}},
		confStruct{A: 1, B: "b", C: []int{4}, E: confInner{X: 2, S: "s"}, F: &confInner{X: 3}, G: 2 * time.Second, H: 1.25, I: 200, J: true,
			Inl: confInner{X: 9, S: "inl"}, Ign: 5, Arr: [2]string{"p", "q"}, L: []confInner{{X: 1}}, M: map[string]confInner{"k": {S: "v"}}},
		&confStruct{A: 7},
		[]interface{}{1, "two", 3.0, nil, map[string]interface{}{"k": "v"}},
		map[string]interface{}{"a": []interface{}{map[string]interface{}{"b": 1}, []interface{}{1, 2}}},
		map[string]interface{}{"-1": 1},
		42,
		nil,
		map[string]interface{}{"0": "a", "1": "b"},
		map[string]interface{}{"x": uint64(1 << 63), "y": int8(-5), "z": float32(0.5), "w": "str", "v": true},
	}
	for i, in := range inputs {
		for _, sep := range []bool{false, true} {
			var opts []ucfg.Option
			if sep {
				opts = append(opts, ucfg.PathSep("."))
			}
			var res string
			func() {
				defer func() {
					if r := recover(); r != nil {
						res = fmt.Sprint("PANIC ", r)
					}
				}()
				c, err := ucfg.NewFrom(in, opts...)
				if err != nil {
					res = errStr(err)
					return
				}
				res = unpackGeneric(c, opts...) + " keys=" + fmt.Sprint(c.FlattenedKeys(opts...))
			}()
			out = append(out, fmt.Sprintf("%d/%v: %s", i, sep, res))
		}
	}
	return strings.Join(out, "\n")
}

func Conf_merge() string {
	var out []string
	type pair struct{ a, b interface{} }
	pairs := []pair{
		{map[string]interface{}{"a": 1, "l": []int{1, 2, 3}, "o": map[string]interface{}{"x": 1, "y": 2}},
			map[string]interface{}{"a": 2, "l": []int{9}, "o": map[string]interface{}{"y": 3, "z": 4}, "n": nil}},
		{map[string]interface{}{"a": map[string]interface{}{"b": 1}}, map[string]interface{}{"a": 5}},
		{map[string]interface{}{"a": 5}, map[string]interface{}{"a": map[string]interface{}{"b": 1}}},
		{map[string]interface{}{"a": []interface{}{1, 2}}, map[string]interface{}{"a": map[string]interface{}{"b": 1}}},
		{map[string]interface{}{"a": map[string]interface{}{"b": 1}}, map[string]interface{}{"a": nil}},
		{map[string]interface{}{"a": []interface{}{map[string]interface{}{"x": 1}, 2}}, map[string]interface{}{"a": []interface{}{map[string]interface{}{"y": 2}}}},
		{map[string]interface{}{"a": []interface{}{}}, map[string]interface{}{"a": []interface{}{}}},
		{map[string]interface{}{"a": []interface{}{1}}, map[string]interface{}{"a": []interface{}{}, "b": map[string]interface{}{}}},
	}
	pols := []struct {
		n string
		o []ucfg.Option
	}{{"default", nil}, {"replace", []ucfg.Option{ucfg.ReplaceValues}}, {"arrreplace", []ucfg.Option{ucfg.ReplaceArrValues}},
		{"append", []ucfg.Option{ucfg.AppendValues}}, {"prepend", []ucfg.Option{ucfg.PrependValues}}}
	for i, p := range pairs {
		for _, pol := range pols {
			c, err := ucfg.NewFrom(p.a)
			if err != nil {
				out = append(out, errStr(err))
				continue
			}
			err = c.Merge(p.b, pol.o...)
			out = append(out, fmt.Sprintf("%d/%s: %s %s", i, pol.n, errStr(err), unpackGeneric(c)))
		}
	}
	// config as source, struct as source
	src, _ := ucfg.NewFrom(map[string]interface{}{"k": map[string]interface{}{"v": 1}})
	dst := ucfg.New()
	out = append(out, errStr(dst.Merge(src)), unpackGeneric(dst), src.Path("."), fmt.Sprint(src.Parent() == nil))
	out = append(out, errStr(dst.Merge(map[string]interface{}{"w": src})), unpackGeneric(dst), src.Path("."))
	out = append(out, errStr(dst.Merge(confStruct{A: 3, C: []int{1}})), unpackGeneric(dst))
	out = append(out, errStr(dst.Merge(dst)), unpackGeneric(dst))
	return strings.Join(out, "\n")
}

type confVal struct {
	N   int           `config:"n" validate:"min=1, max=10"`
	S   string        `config:"s" validate:"required"`
	P   int           `config:"p" validate:"positive"`
	D   time.Duration `config:"d" validate:"min=1s"`
	L   []int         `config:"l" validate:"nonzero"`
	Sub confValSub    `config:"sub"`
}

type confValSub struct {
	X int `config:"x" validate:"nonzero"`
}

func (s *confValSub) InitDefaults() { s.X = 5 }

type confValidator struct {
	V int `config:"v"`
}

func (c confValidator) Validate() error {
	if c.V == 13 {
		return fmt.Errorf("unlucky")
	}
	return nil
}

func Conf_unpack() string {
	var out []string
	in := map[string]interface{}{
		"a": 5, "b": "str", "c": []interface{}{1, 2}, "d": map[string]interface{}{"k": []interface{}{true}},
		"e": map[string]interface{}{"x": 1, "s": "es"}, "f": map[string]interface{}{"x": 2},
		"g": "1m", "h": 0.5, "i": 255, "j": map[string]interface{}{"k": true}, "x": 77, "s": "inline-s",
		"arr": []interface{}{"1", "2"}, "re": "^a.*$", "l": []interface{}{map[string]interface{}{"x": 4}},
		"m": map[string]interface{}{"k1": map[string]interface{}{"s": "v1"}}, "cfg": map[string]interface{}{"q": 1}, "iface": []interface{}{1, "x"},
	}
	c, err := ucfg.NewFrom(in, ucfg.PathSep("."))
	out = append(out, errStr(err))
	var t confStruct
	t.Ign = 99
	t.priv = 98
	err = c.Unpack(&t, ucfg.PathSep("."))
	out = append(out, errStr(err))
	out = append(out, fmt.Sprint(t.A, t.B, t.C, Dump(t.D), t.E, *t.F, t.G, t.H, t.I, t.J, t.Inl, t.Ign, t.priv, t.Arr, t.Re.String(), t.L, t.M, Dump(t.Iface)))
	if t.Cfg != nil {
		out = append(out, unpackGeneric(t.Cfg), t.Cfg.Path("."))
	}
	// failures
	for _, bad := range []map[string]interface{}{
		{"a": "notanint"}, {"i": 256}, {"i": -1}, {"c": map[string]interface{}{"x": 1}}, {"arr": []interface{}{"1"}}, {"g": "zz"}, {"re": "("},
		{"e": 5}, {"a": 1e300}, {"h": "x"}, {"j": 5}, {"l": []interface{}{map[string]interface{}{"x": "bad"}}},
	} {
		bc, err := ucfg.NewFrom(bad, ucfg.PathSep("."))
		if err != nil {
			out = append(out, errStr(err))
			continue
		}
		var t2 confStruct
		out = append(out, errStr(bc.Unpack(&t2, ucfg.PathSep("."))))
	}
	// pre-filled merging of slices by policy
	for _, o := range [][]ucfg.Option{nil, {ucfg.ReplaceValues}, {ucfg.AppendValues}, {ucfg.PrependValues}} {
		t3 := confStruct{C: []int{1, 2, 3}}
		sc, _ := ucfg.NewFrom(map[string]interface{}{"c": []int{9}})
		out = append(out, errStr(sc.Unpack(&t3, o...)), fmt.Sprint(t3.C))
	}
	return strings.Join(out, "\n")
}

func Conf_validate() string {
	var out []string
	cases := []map[string]interface{}{
		{"n": 5, "s": "x", "p": 1, "d": "2s", "l": []int{1}},
		{"n": 0, "s": "x", "l": []int{1}},
		{"n": 11, "s": "x", "l": []int{1}},
		{"n": 5, "l": []int{1}},
		{"n": 5, "s": "x", "p": -1, "l": []int{1}},
		{"n": 5, "s": "x", "d": "10ms", "l": []int{1}},
		{"n": 5, "s": "x", "l": []int{}},
		{"n": 5, "s": "x", "l": []int{1}, "sub": map[string]interface{}{"x": 0}},
		{"n": 5, "s": "x", "l": []int{1}, "sub": map[string]interface{}{"x": 3}},
	}
	for i, in := range cases {
		c, err := ucfg.NewFrom(in)
		if err != nil {
			out = append(out, errStr(err))
			continue
		}
		var v confVal
		v.D = 5 * time.Second
		err = c.Unpack(&v)
		out = append(out, fmt.Sprintf("%d: %s %v", i, errStr(err), v))
	}
	for _, n := range []int{1, 13} {
		c, _ := ucfg.NewFrom(map[string]interface{}{"v": n})
		var v confValidator
		out = append(out, errStr(c.Unpack(&v)))
		var vs struct {
			L []confValidator `config:"l"`
		}
		c2, _ := ucfg.NewFrom(map[string]interface{}{"l": []interface{}{map[string]interface{}{"v": n}}})
		out = append(out, errStr(c2.Unpack(&vs)))
	}
	return strings.Join(out, "\n")
}

func Conf_varexp() string {
	var out []string
	in := map[string]interface{}{
		"a": "value", "n": 42, "o": map[string]interface{}{"k": "deep", "l": []interface{}{1, 2}},
		"r1": "${a}", "r2": "pre-${a}-post", "r3": "${missing:default}", "r4": "${a:+alt}", "r5": "${missing:+alt}", "r6": "${missing:?custom msg}",
		"r7": "${n}", "r8": "${o.k}", "r9": "${o}", "r10": "$${a}", "r11": "${o.l.1}", "r12": "${${sel}}", "sel": "a", "r13": "${a}${n}",
		"r14": "${missing}", "r15": "${r1}", "r16": "${cyc1}", "cyc1": "${cyc2}", "cyc2": "${cyc1}", "r17": "${a:${n}}", "r18": "${missing:${n}}",
		"r19": "${res1}", "r20": "x${res2}y", "r21": "a$}b", "r22": "${", "r23": "${a", "r24": "$", "r25": "${}", "r26": "${a:}",
	}
	resolver := func(name string) (string, parse.Config, error) {
		switch name {
		case "res1":
			return "[1, 2, {k: v}]", parse.DefaultConfig, nil
		case "res2":
			return "R2", parse.DefaultConfig, nil
		}
		return "", parse.DefaultConfig, ucfg.ErrMissing
	}
	opts := []ucfg.Option{ucfg.PathSep("."), ucfg.VarExp, ucfg.Resolve(resolver)}
	keys := make([]string, 0, len(in))
	base := map[string]interface{}{}
	for k, v := range in {
		if strings.HasPrefix(k, "r") {
			keys = append(keys, k)
		} else if strings.HasPrefix(k, "cyc") {
			continue
		} else {
			base[k] = v
		}
	}
	base["r1"] = in["r1"]
	base["r7"] = in["r7"]
	sort.Strings(keys)
	c, err := ucfg.NewFrom(base, opts...)
	out = append(out, errStr(err))
	if err != nil {
		return strings.Join(out, "\n")
	}
	for _, k := range keys {
		full := ucfg.New()
		full.Merge(c, opts...)
		add := map[string]interface{}{k: in[k]}
		if k == "r16" {
			add["cyc1"], add["cyc2"] = in["cyc1"], in["cyc2"]
		}
		if err := full.Merge(add, opts...); err != nil {
			out = append(out, k+": Merge="+errStr(err))
			continue
		}
		s, err := full.String(k, -1, opts...)
		line := fmt.Sprintf("%s: String=%q %s", k, s, errStr(err))
		var m map[string]interface{}
		err = full.Unpack(&m, opts...)
		if err != nil && k == "r16" {
			line += " Unpack=ERR" // which of the cyclic settings is reported depends on map order
		} else if err != nil {
			line += " Unpack=" + errStr(err)
		} else {
			line += " Unpack.v=" + Dump(m[k])
		}
		out = append(out, line)
	}
	i, err := c.Int("r7", -1, opts...)
	out = append(out, fmt.Sprint(i, errStr(err)))
	// Env
	env, _ := ucfg.NewFrom(map[string]interface{}{"e1": "from-env", "a": "env-a"}, opts...)
	c2, _ := ucfg.NewFrom(map[string]interface{}{"x": "${e1}", "y": "${a}", "z": "${o.k}"}, append(opts, ucfg.Env(env))...)
	for _, k := range []string{"x", "y", "z"} {
		s, err := c2.String(k, -1, append(opts, ucfg.Env(env))...)
		out = append(out, fmt.Sprintf("env %s=%q %s", k, s, errStr(err)))
	}
	return strings.Join(out, "\n")
}

var parseInputs = []string{
	"", " ", "null", "true", "false", "on", "off", "1", "-1", "1.5", "0x10", "1e3", "abc", "a b c", "'single'", `"double"`, `"esc\"aped"`, `"a\\"`,
	"[]", "[1]", "[1,2,3]", "[1, [2, 3], {a: b}]", "{}", "{a: 1}", "{a: 1, b: [1,2]}", `{"a": "b"}`, `{"a": "b" }`, `{ "a" : 1 }`, "{a:{b:{c:1}}}",
	"1,2,3", "a,b", ",", "a,", "[1,2,]", "{a:1,}", "[", "{", "[1,", "{a:1,", "[ ", "{a", "{a:", `"unterminated`, "'unterminated", "[1 2]", "{a 1}",
	"  padded  ", "[ 1 , 2 ]", "nulls", "TRUE", "T", "0b101", "0o17", "1_000", "+5", "-", ".", "1.", ".5", "-0", "18446744073709551615", "18446744073709551616",
	"-9223372036854775808", "-9223372036854775809", "NaN", "Inf", "-Inf", "0x", `"é"`, `"\x41"`, `"\n"`, "[[[]]]", "[{}]", "{a:[]}", "a:b", "{a:b:c}", "]", "}", "[]]",
}

func Conf_parse() string {
	var out []string
	cfgs := []parse.Config{parse.DefaultConfig, parse.EnvConfig, parse.NoopConfig, {Array: true, IgnoreCommas: true}, {Array: true, Object: true}}
	for _, in := range parseInputs {
		for ci, cfg := range cfgs {
			var res string
			func() {
				defer func() {
					if r := recover(); r != nil {
						res = fmt.Sprint("PANIC ", r)
					}
				}()
				v, err := parse.ValueWithConfig(in, cfg)
				if err != nil {
					res = errStr(err)
				} else {
					res = Dump(v)
				}
			}()
			out = append(out, fmt.Sprintf("%q/%d: %s", in, ci, res))
		}
	}
	return strings.Join(out, "\n")
}

func Conf_flag() string {
	var out []string
	fv := flag.NewFlagKeyValue(nil, true, ucfg.PathSep("."))
	for _, a := range []string{"a=1", "b.c=x", "l.0=p", "l.1=q", "a=2", "e=", "bare", "arr=[1,2]", "o={k: v}"} {
		out = append(out, a+": "+errStr(fv.Set(a)))
	}
	out = append(out, unpackGeneric(fv.Config(), ucfg.PathSep(".")), errStr(fv.Error()))
	out = append(out, fv.String())
	coll := cfgutil.NewCollector(nil, ucfg.PathSep("."))
	out = append(out, errStr(coll.Add(ucfg.NewFrom(map[string]interface{}{"a": 1}))))
	out = append(out, errStr(coll.Add(ucfg.NewFrom(map[string]interface{}{"a": map[string]interface{}{"b": 1}}))))
	out = append(out, errStr(coll.Add(ucfg.NewFrom(make(chan int)))))
	out = append(out, errStr(coll.Add(ucfg.NewFrom(map[string]interface{}{"c": 1}))), errStr(coll.Error()))
	if coll.Config() != nil {
		out = append(out, unpackGeneric(coll.Config()))
	}
	return strings.Join(out, "\n")
}

func Conf_paths() string {
	var out []string
	c, _ := ucfg.NewFrom(map[string]interface{}{
		"a": map[string]interface{}{"b": []interface{}{map[string]interface{}{"c": 1}, 2, []interface{}{3}}},
		"l": []interface{}{10, 20, 30},
	})
	b, _ := c.Child("a", -1)
	out = append(out, b.Path("."), b.PathOf("x", "/"))
	bb, _ := b.Child("b", -1)
	out = append(out, bb.Path("."))
	b0, err := bb.Child("", 0)
	out = append(out, errStr(err))
	if b0 != nil {
		out = append(out, b0.Path("."), fmt.Sprint(b0.Parent() == bb))
	}
	out = append(out, fmt.Sprint(c.FlattenedKeys(), c.FlattenedKeys(ucfg.PathSep("/"))))
	ok, err := c.Remove("l", 0)
	out = append(out, fmt.Sprint(ok, errStr(err), c.FlattenedKeys()))
	c2, _ := ucfg.NewFrom(map[string]interface{}{"a": map[string]interface{}{"b": []interface{}{map[string]interface{}{"c": 1}}}, "n": 1})
	d := diff.CompareConfigs(c, c2)
	dl := strings.Split(d.String(), "\n")
	sort.Strings(dl)
	out = append(out, strings.Join(dl, "\n"), fmt.Sprint(d.HasChanged(), d.HasKeyRemoved()))
	dl = strings.Split(diff.CompareConfigs(c, c).String(), "\n")
	sort.Strings(dl)
	out = append(out, strings.Join(dl, "\n"))
	for _, name := range []string{"l.0", "l.5", "a.b.0.c", "a.b.1", "a.x", "l.x", "a.b.2.0", "zz", "l.-1", "l.0x1", "l.01"} {
		func() {
			defer func() {
				if r := recover(); r != nil {
					out = append(out, fmt.Sprint(name, ": PANIC ", r))
				}
			}()
			h, err := c.Has(name, -1, ucfg.PathSep("."))
			v, err2 := c.Int(name, -1, ucfg.PathSep("."))
			out = append(out, fmt.Sprintf("%s: has=%v %s int=%d %s", name, h, errStr(err), v, errStr(err2)))
		}()
	}
	return strings.Join(out, "\n")
}

func Conf_errors() string {
	var out []string
	desc := func(err error) string {
		if err == nil {
			return "ok"
		}
		e, ok := err.(ucfg.Error)
		if !ok {
			return "NOT-UCFG-ERROR " + err.Error()
		}
		return fmt.Sprintf("msg=%q path=%q reason=%v class=%v", e.Message(), e.Path(), e.Reason(), e.Class())
	}
	meta := ucfg.MetaData(ucfg.Meta{Source: "file.yml"})
	c, _ := ucfg.NewFrom(map[string]interface{}{"a": map[string]interface{}{"b": "str", "l": []interface{}{1, "x"}}, "r": "${nope}"}, meta, ucfg.VarExp)
	_, err := c.Int("a", -1)
	out = append(out, desc(err))
	var t struct {
		A struct {
			B int   `config:"b"`
			L []int `config:"l"`
		} `config:"a"`
	}
	out = append(out, desc(c.Unpack(&t)))
	var t2 struct {
		R string `config:"r"`
	}
	out = append(out, desc(c.Unpack(&t2, ucfg.VarExp)))
	_, err = c.Bool("zz", -1)
	out = append(out, desc(err))
	out = append(out, desc(c.Unpack(5)))
	out = append(out, desc(c.Unpack(nil)))
	var nilc *ucfg.Config
	out = append(out, desc(nilc.Unpack(&t)))
	_, err = ucfg.NewFrom(make(chan int))
	out = append(out, desc(err))
	_, err = ucfg.NewFrom(map[int]int{1: 2})
	out = append(out, desc(err))
	return strings.Join(out, "\n")
}

func Conf_numeric() string {
	var out []string
	floats := []float64{0, -0.5, 0.5, 1.5, -1.5, 2147483647.5, 2147483648, -2147483649, 4294967296, 9223372036854775807, 9223372036854775808, -9223372036854775808,
		-9223372036854777856, 18446744073709551615, 18446744073709551616, 1e300, -1e300}
	for _, f := range floats {
		out = append(out, fmt.Sprint(f, int64(f), int32(f), int16(f), int8(f), uint64(f), uint32(f), uint16(f), uint8(f), int(f), uint(f), float32(f)))
	}
	ints := []int64{0, -1, 127, 128, 255, 256, -129, 1 << 31, 1<<63 - 1, -1 << 63}
	for _, i := range ints {
		out = append(out, fmt.Sprint(i, int8(i), uint8(i), int16(i), uint16(i), int32(i), uint32(i), uint64(i), float64(i), float32(i), i>>3, uint64(i)>>3, i<<62, i/3, i%7))
	}
	c := ucfg.New()
	for _, f := range floats {
		c.SetFloat("f", -1, f)
		i, e1 := c.Int("f", -1)
		u, e2 := c.Uint("f", -1)
		var t struct {
			F8 int8 `config:"f"`
		}
		var t2 struct {
			F time.Duration `config:"f"`
		}
		var t3 struct {
			F float32 `config:"f"`
		}
		var t4 struct {
			F uint16 `config:"f"`
		}
		out = append(out, fmt.Sprint(f, i, errStr(e1), u, errStr(e2), errStr(c.Unpack(&t)), t.F8, errStr(c.Unpack(&t2)), int64(t2.F), errStr(c.Unpack(&t3)), t3.F, errStr(c.Unpack(&t4)), t4.F))
	}
	return strings.Join(out, "\n")
}

func Conf_fieldopts() string {
	var out []string
	a := map[string]interface{}{"paths": []interface{}{"a", "b"}, "procs": []interface{}{1, 2}, "n": map[string]interface{}{"paths": []interface{}{"x"}}}
	b := map[string]interface{}{"paths": []interface{}{"c"}, "procs": []interface{}{3}, "n": map[string]interface{}{"paths": []interface{}{"y"}}}
	optsets := [][]ucfg.Option{
		{ucfg.FieldReplaceValues("paths")},
		{ucfg.FieldAppendValues("procs"), ucfg.FieldReplaceValues("paths")},
		{ucfg.AppendValues, ucfg.FieldReplaceValues("n.paths")},
		{ucfg.PrependValues, ucfg.FieldMergeValues("paths")},
		{ucfg.FieldAppendValues("**.paths")},
		{ucfg.FieldPrependValues("*.paths")},
	}
	for i, o := range optsets {
		o = append(o, ucfg.PathSep("."))
		c, _ := ucfg.NewFrom(a, o...)
		err := c.Merge(b, o...)
		out = append(out, fmt.Sprintf("%d: %s %s", i, errStr(err), unpackGeneric(c)))
	}
	return strings.Join(out, "\n")
}
