package h

// Registry maps harness names to functions for native replay.
var Registry = map[string]func(){
	"H_C03_smoke": H_C03_smoke,
}
