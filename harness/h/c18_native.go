package h

import (
	"encoding/json"
	"fmt"
	"reflect"
	"strings"

	hjson "gopkg.in/hjson/hjson-go.v3"
	yaml "gopkg.in/yaml.v2"
)

// Native_decoder_contracts validates the decoder contract stubs of C18 against
// the REAL decoders: for a family of concrete documents the value each decoder
// produces must be deeply equal to yamlShape / jsonShape of the document tree.
// It only runs natively (the decoders cannot be encoded).
func Native_decoder_contracts() string {
	var docs []*doc
	leaves := []*doc{{kind: 0}, {kind: 1, b: true}, {kind: 1}, {kind: 2, i: 0}, {kind: 2, i: -7}, {kind: 2, i: 9007199254740991}, {kind: 2, i: -9007199254740991}}
	for _, f := range c18Floats {
		leaves = append(leaves, &doc{kind: 3, f: f.v, ftxt: f.txt})
	}
	for _, s := range c18Strings {
		leaves = append(leaves, &doc{kind: 4, s: s})
	}
	for _, l := range leaves {
		docs = append(docs, &doc{kind: 6, keys: []string{"a", "b"}, obj: []*doc{l, {kind: 5, list: []*doc{l, {kind: 6, keys: []string{"k", "other key"}, obj: []*doc{l, {kind: 5}}}}}}})
		docs = append(docs, &doc{kind: 6, keys: []string{"a"}, obj: []*doc{{kind: 6}}})
	}
	var diffs []string
	for _, e := range c18Big {
		text := []byte(`{"n": ` + e.txt + `}`)
		var y, j, h interface{}
		if yaml.Unmarshal(text, &y) != nil || json.Unmarshal(text, &j) != nil || hjson.Unmarshal(text, &h) != nil {
			diffs = append(diffs, fmt.Sprintf("a decoder rejects %s", text))
			continue
		}
		if !reflect.DeepEqual(y, map[interface{}]interface{}{"n": e.y}) {
			diffs = append(diffs, fmt.Sprintf("yaml contract differs for %s: real %#v contract %#v", text, y, e.y))
		}
		if !reflect.DeepEqual(j, map[string]interface{}{"n": e.j}) || !reflect.DeepEqual(h, map[string]interface{}{"n": e.j}) {
			diffs = append(diffs, fmt.Sprintf("json/hjson contract differs for %s: real %#v / %#v contract %#v", text, j, h, e.j))
		}
	}
	for _, d := range docs {
		text := []byte(d.text())
		var y, j, h interface{}
		if err := yaml.Unmarshal(text, &y); err != nil {
			diffs = append(diffs, fmt.Sprintf("yaml rejects %s: %v", text, err))
			continue
		}
		if err := json.Unmarshal(text, &j); err != nil {
			diffs = append(diffs, fmt.Sprintf("json rejects %s: %v", text, err))
			continue
		}
		if err := hjson.Unmarshal(text, &h); err != nil {
			diffs = append(diffs, fmt.Sprintf("hjson rejects %s: %v", text, err))
			continue
		}
		if !reflect.DeepEqual(y, d.yamlShape()) {
			diffs = append(diffs, fmt.Sprintf("yaml contract differs for %s: real %#v contract %#v", text, y, d.yamlShape()))
		}
		if !reflect.DeepEqual(j, d.jsonShape()) {
			diffs = append(diffs, fmt.Sprintf("json contract differs for %s: real %#v contract %#v", text, j, d.jsonShape()))
		}
		if !reflect.DeepEqual(h, d.jsonShape()) {
			diffs = append(diffs, fmt.Sprintf("hjson contract differs for %s: real %#v contract %#v", text, h, d.jsonShape()))
		}
	}
	if len(diffs) == 0 {
		return fmt.Sprintf("OK %d documents through the three real decoders match the contract shapes", len(docs))
	}
	return "CONTRACT-MISMATCH\n" + strings.Join(diffs, "\n")
}
