package h

// C12 Path-addressed reads, writes and removals behave like a tree.

import (
	ucfg "github.com/elastic/go-ucfg"

	"vharness/verif"
)

var c12Names = []string{"a", "b", "a.b", "a.0", "a.1.b", ""}
var c12Idx = []int{-1, 0, 1, 2}

type c12Op struct {
	kind int // 0 SetUint, 1 Remove, 2 SetChild({c: u}), 3 SetBool
	name string
	idx  int
	u    uint64
}

func c12PreState() *Node {
	switch verif.Choice("pre", 4) {
	case 0:
		return nDict()
	case 1:
		return nDict().set("a", nDict().set("b", nUint(verif.Uint64("pre.a.b")))).set("b", nUint(verif.Uint64("pre.b")))
	case 2:
		return nDict().set("a", nList(nUint(verif.Uint64("pre.a.0")), nDict().set("b", nUint(verif.Uint64("pre.a.1.b"))), nUint(verif.Uint64("pre.a.2"))))
	default:
		return nDict().set("a", nUint(verif.Uint64("pre.a"))).set("b", nList(nUint(verif.Uint64("pre.b.0"))))
	}
}

func c12ProbeAll(c *ucfg.Config, model *Node, sep bool, opts []ucfg.Option, tag string) {
	got, err := unpackTree(c, opts...)
	verif.Assert(err == nil && eqTree(got, model), "C12/whole tree equals model/"+tag)
	for _, name := range c12Names {
		for _, idx := range []int{-1, 0, 1} {
			if name == "" && idx < 0 {
				continue
			}
			addr := parseAddr(name, idx, sep)
			n, st := modelGet(model, addr)
			if idx < 0 {
				// CountField at the same (possibly dotted) name: the number of list elements, 1 for a primitive
				cnt, cerr := c.CountField(name, opts...)
				switch {
				case st == stMissing || st == stError:
					verif.Assert(cerr != nil, "C12/CountField fails on a missing address/"+tag)
				case n.Kind == kCfg && len(n.List) > 0:
					verif.Assert(cerr == nil && cnt == len(n.List), "C12/CountField is the length of the list at the address/"+tag)
				case n.Kind == kUint:
					verif.Assert(cerr == nil && cnt == 1, "C12/CountField of a primitive is 1/"+tag)
				}
			}
			has, herr := c.Has(name, idx, opts...)
			u, uerr := c.Uint(name, idx, opts...)
			switch {
			case st == stError:
				verif.Assert(uerr != nil, "C12/getter through a primitive fails/"+tag)
			case st == stMissing:
				verif.Assert(herr == nil && !has, "C12/Has false on a missing address/"+tag)
				verif.Assert(uerr != nil, "C12/getter fails on a missing address/"+tag)
			default:
				verif.Assert(herr == nil && has, "C12/Has true on an existing address/"+tag)
				if n.Kind == kUint {
					verif.Assert(uerr == nil && u == n.U, "C12/value read back/"+tag)
				} else {
					verif.Assert(uerr != nil, "C12/Uint on a non-number fails/"+tag)
				}
			}
		}
	}
	// an emptied container is a corner the statement leaves open: only the non-empty direction is required
	if len(model.List) > 0 {
		verif.Assert(c.IsArray(), "C12/IsArray on a config with list elements/"+tag)
	}
	if model.dictLen() > 0 {
		verif.Assert(c.IsDict(), "C12/IsDict on a config with named settings/"+tag)
	}
}

// H_C12_ops: a pre-state, then k operations with overlapping addresses; after every
// step the whole tree, Has and the getter over the address set agree with the model.
func H_C12_ops() {
	sep := verif.Choice("pathsep", 2) == 1
	var opts []ucfg.Option
	if sep {
		opts = append(opts, ucfg.PathSep("."))
	}
	model := c12PreState()
	c, err := ucfg.NewFrom(model.toGo())
	verif.Assume(err == nil)
	k := 2
	if verif.Tier() > 0 {
		k = 2
	}
	for stepNo := 0; stepNo < k; stepNo++ {
		p := "op" + itoa(stepNo)
		name := c12Names[verif.Choice(p+".name", len(c12Names))]
		idx := c12Idx[verif.Choice(p+".idx", len(c12Idx))]
		addr := parseAddr(name, idx, sep)
		switch verif.Choice(p+".kind", 3) {
		case 0:
			u := verif.Uint64(p + ".u")
			err := c.SetUint(name, idx, u, opts...)
			before := model.clone()
			ok := modelSet(model, addr, nUint(u))
			if !ok {
				model = before
			}
			verif.Assert((err == nil) == ok, "C12/SetUint succeeds exactly when the address is writable")
			if err == nil && ok {
				verif.Reach("set ok")
			}
		case 1:
			removed, err := c.Remove(name, idx, opts...)
			mrem, ok := modelRemove(model, addr)
			verif.Assert((err == nil) == ok, "C12/Remove fails exactly through a primitive")
			if ok {
				verif.Assert(removed == mrem, "C12/Remove reports whether the setting existed")
			}
			if mrem {
				verif.Reach("removed")
			}
		case 2:
			u := verif.Uint64(p + ".u")
			child := ucfg.New()
			child.SetUint("c", -1, u)
			err := c.SetChild(name, idx, child, opts...)
			before := model.clone()
			ok := modelSet(model, addr, nDict().set("c", nUint(u)))
			if !ok {
				model = before
			}
			verif.Assert((err == nil) == ok, "C12/SetChild succeeds exactly when the address is writable")
		}
		c12ProbeAll(c, model, sep, opts, "step"+itoa(stepNo))
	}
	// the same tree read with the other separator setting: names written without a separator that
	// contain a dot are single keys, the dotted paths of a reader with PathSep do not find them
	if sep {
		c12ProbeAll(c, model, false, nil, "read-without-separator")
	} else {
		c12ProbeAll(c, model, true, []ucfg.Option{ucfg.PathSep(".")}, "read-with-separator")
	}
	verif.Reach("history checked")
}

// H_C12_child: a child config is a live view: writes through the handle are visible through the parent.
func H_C12_child() {
	model := c12PreState()
	c, err := ucfg.NewFrom(model.toGo())
	verif.Assume(err == nil)
	name := []string{"a", "b"}[verif.Choice("name", 2)]
	idx := []int{-1, 0, 1}[verif.Choice("idx", 3)]
	n, st := modelGet(model, parseAddr(name, idx, false))
	ch, err := c.Child(name, idx)
	if st != stOK || n.Kind != kCfg {
		// nil settings yield a detached empty config (statement is silent); primitives and missing must fail
		if st != stOK || n.Kind != kNil {
			verif.Assert(err != nil, "C12/Child of a non-object fails")
		}
		return
	}
	verif.Assert(err == nil && ch != nil, "C12/Child of an object succeeds")
	if err != nil || ch == nil {
		return
	}
	// operations on the parent between obtaining the handle and using it: the handle stays a live view
	switch verif.Choice("between", 5) {
	case 1: // settings merged into the very object the handle refers to
		add := nDict().set("y", nUint(2))
		b := nDict().set(name, add)
		if idx >= 0 {
			// (the elements in front are containers-or-nil placeholders: a nil leaves a container in place
			// and replaces a primitive, exactly as the reference merge says)
			l := nList()
			for i := 0; i < idx; i++ {
				l.List = append(l.List, nNil())
			}
			l.List = append(l.List, add)
			b = nDict().set(name, l)
		}
		verif.Assert(c.Merge(b.toGo()) == nil, "C12/merge into the child's object accepted")
		model = mergeVal(constPol(polDefault), nil, model, b)
		n, _ = modelGet(model, parseAddr(name, idx, false))
		verif.Reach("merged under a live handle")
	case 2: // an unrelated merge
		verif.Assert(c.Merge(map[string]interface{}{"unrelated": 1}) == nil, "C12/unrelated merge accepted")
		model.set("unrelated", nUint(1))
	case 3: // elements prepended / appended to the list the handle's object is an element of
		if idx < 0 {
			return
		}
		pol := []int{polPrepend, polAppend}[verif.Choice("between.pol", 2)]
		b := nDict().set(name, nList(nUint(9)))
		verif.Assert(c.Merge(b.toGo(), polOpts(pol)...) == nil, "C12/list merge accepted")
		model = mergeVal(constPol(pol), nil, model, b)
		// (n is still the model node of the handle's object: mergeVal clones, so look it up again)
		at := idx
		if pol == polPrepend {
			at = idx + 1
		}
		n, _ = modelGet(model, parseAddr(name, at, false))
	case 4: // a write next to the child
		verif.Assert(c.SetUint("other", -1, 1) == nil, "C12/sibling write accepted")
		model.set("other", nUint(1))
	}
	u := verif.Uint64("u")
	verif.Assert(ch.SetUint("z", -1, u) == nil, "C12/write through child accepted")
	n.set("z", nUint(u))
	got, err := unpackTree(c)
	verif.Reach("child write checked")
	verif.Assert(err == nil && eqTree(got, model), "C12/write through child visible through parent")
}

// H_C12_list_history: longer histories on one list (removals leave spare capacity behind,
// writes past the end pad with nils): after every step the list equals the model's.
func H_C12_list_history() {
	model := nDict().set("a", nList(nUint(verif.Uint64("x0")), nUint(verif.Uint64("x1")), nUint(verif.Uint64("x2"))))
	c, err := ucfg.NewFrom(model.toGo())
	verif.Assume(err == nil)
	n := 3
	if verif.Tier() > 0 {
		n = 4
	}
	for s := 0; s < n; s++ {
		p := "op" + itoa(s)
		if verif.Choice(p+".kind", 2) == 0 {
			idx := verif.Choice(p+".idx", 2)
			removed, err := c.Remove("a", idx)
			mrem, ok := modelRemove(model, parseAddr("a", idx, false))
			verif.Assert((err == nil) == ok && removed == mrem, "C12/list history: Remove outcome")
		} else {
			idx := verif.Choice(p+".idx", 5)
			u := verif.Uint64(p + ".u")
			err := c.SetUint("a", idx, u)
			ok := modelSet(model, parseAddr("a", idx, false), nUint(u))
			verif.Assert((err == nil) == ok, "C12/list history: SetUint outcome")
		}
		got, err := unpackTree(c)
		verif.Assert(err == nil && eqTree(got, model), "C12/list history: whole tree equals model/step"+itoa(s))
		l := model.get("a")
		cnt, err := c.CountField("a")
		if len(l.List) > 0 {
			verif.Assert(err == nil && cnt == len(l.List), "C12/list history: CountField")
		}
		for i := range l.List {
			has, herr := c.Has("a", i)
			verif.Assert(herr == nil && has, "C12/list history: every position below the length exists (gaps are nil settings)")
			if l.List[i].Kind == kNil {
				s, serr := c.String("a", i)
				verif.Assert(serr == nil && s == "null", "C12/list history: a padded position reads as the nil setting")
			}
		}
	}
	verif.Reach("list history checked")
}

// H_C12_child_after_remove: a child handle stays a live view when elements before it are removed.
func H_C12_child_after_remove() {
	model := nDict().set("l", nList(nDict().set("id", nUint(0)), nDict().set("id", nUint(1)), nDict().set("id", nUint(2))))
	c, err := ucfg.NewFrom(model.toGo())
	verif.Assume(err == nil)
	k := 1 + verif.Choice("handle", 2) // handle to element 1 or 2
	h, err := c.Child("l", k)
	verif.Assume(err == nil)
	j := verif.Choice("remove", 3)
	removed, err := c.Remove("l", j)
	mrem, _ := modelRemove(model, parseAddr("l", j, false))
	verif.Assert(err == nil && removed == mrem, "C12/child after remove: Remove outcome")
	if j == k {
		return // the handle's element itself was removed: it is detached now
	}
	pos := k
	if j < k {
		pos = k - 1
	}
	u := verif.Uint64("u")
	v := verif.Uint64("v")
	verif.Assert(h.SetUint("tag", -1, u) == nil, "C12/child after remove: write through the handle accepted")
	model.get("l").List[pos].set("tag", nUint(u))
	got, err := unpackTree(c)
	verif.Assert(err == nil && eqTree(got, model), "C12/child after remove: write through the handle is visible through the parent")
	verif.Assert(c.SetUint("l."+itoa(pos)+".id", -1, v, ucfg.PathSep(".")) == nil, "C12/child after remove: write through the parent accepted")
	id, err := h.Uint("id", -1)
	verif.Assert(verif.And(err == nil, id == v), "C12/child after remove: write through the parent is visible through the handle")
	verif.Reach("child liveness after remove checked")
}
