package h

// C20 Numeric path segments index lists only within [0, MaxIdx].

import (
	"strconv"

	ucfg "github.com/elastic/go-ucfg"

	"vharness/verif"
)

func c20Alphabet(b byte) bool {
	return verif.Or(
		verif.Or(verif.Or(b == '0', b == '1'), verif.Or(b == '7', b == '9')),
		verif.Or(verif.Or(verif.Or(b == '+', b == '-'), verif.Or(b == 'x', b == 'X')), verif.Or(verif.Or(b == 'o', b == 'b'), verif.Or(b == '_', verif.Or(b == 'a', b == 'f')))))
}

// H_C20_key: a key / path segment is a list index exactly when numeric keys are not enabled
// (single segment) and it is an integer literal in [0, MaxIdx]; otherwise it is an ordinary
// name that round-trips unchanged.
func H_C20_key() {
	maxLen := 3
	if verif.Tier() > 0 {
		maxLen = 4
	}
	n := 1 + verif.Choice("len", maxLen)
	key := verif.Bytes("key", n)
	for i := 0; i < n; i++ {
		verif.Assume(c20Alphabet(key[i]))
	}
	m := verif.Int64("maxidx")
	verif.Assume(verif.And(m >= 0, m <= 6))
	numKeys := verif.Bool("numkeys")
	val := verif.Uint64("val")
	pos := verif.Choice("position", 3)
	opts := []ucfg.Option{ucfg.MaxIdx(m), ucfg.EnableNumKeys(numKeys)}
	single := true
	var in map[string]interface{}
	switch pos {
	case 0: // map key, no separator
		in = map[string]interface{}{key: val}
	case 1: // map key, single segment, with separator
		opts = append(opts, ucfg.PathSep("."))
		in = map[string]interface{}{key: val}
	case 2: // second segment of a dotted key
		opts = append(opts, ucfg.PathSep("."))
		in = map[string]interface{}{"p." + key: val}
		single = false
	}
	verif.AllocLimit(7)
	c, err := ucfg.NewFrom(in, opts...)
	verif.AllocLimit(0)
	verif.Assert(err == nil, "C20/key accepted")
	if err != nil {
		return
	}
	node := c
	if pos == 2 {
		ch, err := c.Child("p", -1, opts...)
		verif.Assert(err == nil, "C20/parent of the segment is an object")
		if err != nil {
			return
		}
		node = ch
	}
	v, perr := strconv.ParseInt(key, 0, 64)
	isIndex := false
	if perr == nil {
		if verif.And(v >= 0, v <= m) {
			isIndex = true
			if single && numKeys {
				isIndex = false
			}
		}
	}
	if isIndex {
		verif.Reach("index")
		verif.Assert(node.IsArray(), "C20/integer literal within [0,MaxIdx] indexes a list")
		cnt, err := node.CountField("")
		verif.Assert(verif.And(err == nil, int64(cnt) == v+1), "C20/list has exactly idx+1 entries")
		got, err := node.Uint("", int(v), opts...)
		verif.Assert(verif.And(err == nil, got == val), "C20/value readable at the index")
	} else {
		verif.Reach("name")
		verif.Assert(!node.IsArray(), "C20/other segment builds no list")
		verif.Assert(node.IsDict(), "C20/other segment is an ordinary name")
		f := node.GetFields()
		verif.Assert(len(f) == 1 && f[0] == key, "C20/name round-trips unchanged")
		got, err := node.Uint(key, -1, ucfg.MaxIdx(m), ucfg.EnableNumKeys(numKeys))
		verif.Assert(verif.And(err == nil, got == val), "C20/value readable under the same name")
	}
}

var c20Tags = []string{"0", "1", "7", "-1", "+1", "0x1", "01", "1_0", "9", "a", "x1", "1a", "0b11", "0o7", ""}

type c20Tagged0 struct {
	V uint64 `config:"0"`
}
type c20Tagged7 struct {
	V uint64 `config:"7"`
}
type c20TaggedNeg struct {
	V uint64 `config:"-1"`
}
type c20TaggedHex struct {
	V uint64 `config:"0x2"`
}
type c20TaggedDot struct {
	V uint64 `config:"l.1"`
}

// H_C20_tags: struct tags and setter names from a concrete table of integer syntaxes.
func H_C20_tags() {
	m := verif.Int64("maxidx")
	verif.Assume(verif.And(m >= 0, m <= 8))
	val := verif.Uint64("val")
	opts := []ucfg.Option{ucfg.MaxIdx(m), ucfg.PathSep(".")}
	verif.AllocLimit(9)
	switch verif.Choice("case", 6) {
	case 0:
		c, err := ucfg.NewFrom(c20Tagged0{V: val}, opts...)
		verif.AllocLimit(0)
		verif.Assert(err == nil && c.IsArray(), "C20/tag 0 is index 0")
	case 1:
		c, err := ucfg.NewFrom(c20Tagged7{V: val}, opts...)
		verif.AllocLimit(0)
		verif.Assert(err == nil, "C20/tag 7 accepted")
		if err == nil {
			if m >= 7 {
				cnt, _ := c.CountField("")
				verif.Assert(c.IsArray() && cnt == 8, "C20/tag 7 within MaxIdx is index 7")
			} else {
				verif.Assert(!c.IsArray() && c.IsDict(), "C20/tag 7 above MaxIdx is a name")
			}
		}
	case 2:
		c, err := ucfg.NewFrom(c20TaggedNeg{V: val}, opts...)
		verif.AllocLimit(0)
		verif.Assert(err == nil && c.IsDict() && !c.IsArray(), "C20/negative tag is a name")
	case 3:
		c, err := ucfg.NewFrom(c20TaggedHex{V: val}, opts...)
		verif.AllocLimit(0)
		verif.Assert(err == nil, "C20/hex tag accepted")
		if err == nil {
			if m >= 2 {
				verif.Assert(c.IsArray(), "C20/0x2 within MaxIdx is index 2")
			} else {
				verif.Assert(c.IsDict(), "C20/0x2 above MaxIdx is a name")
			}
		}
	case 4:
		c, err := ucfg.NewFrom(c20TaggedDot{V: val}, opts...)
		verif.AllocLimit(0)
		verif.Assert(err == nil, "C20/dotted tag accepted")
		if err == nil {
			l, err := c.Child("l", -1, opts...)
			verif.Assert(err == nil, "C20/dotted tag builds l")
			if err == nil {
				if m >= 1 {
					verif.Assert(l.IsArray(), "C20/l.1 within MaxIdx indexes a list")
				} else {
					verif.Assert(l.IsDict(), "C20/l.1 above MaxIdx is a name")
				}
			}
		}
	case 5:
		// setter name from the table
		name := c20Tags[verif.Choice("name", len(c20Tags)-1)]
		c := ucfg.New()
		err := c.SetUint(name, -1, val, opts...)
		verif.AllocLimit(0)
		verif.Assert(err == nil, "C20/setter name accepted")
		v, perr := strconv.ParseInt(name, 0, 64)
		if err == nil {
			if perr == nil && v >= 0 && verif.And(v <= m, true) {
				verif.Assert(c.IsArray(), "C20/setter: literal within MaxIdx indexes a list")
			} else {
				f := c.GetFields()
				verif.Assert(c.IsDict() && len(f) == 1 && f[0] == name, "C20/setter: other name round-trips")
			}
		}
	}
	verif.Reach("tag or setter checked")
}

// H_C20_refs: the name inside a ${...} expression is a path like any other: under every combination
// of EnableNumKeys / EscapePath / PathSep the four expansion forms find the setting that was stored
// under that very name with the same options.
func H_C20_refs() {
	key := c20Tags[verif.Choice("name", len(c20Tags)-1)]
	opts := []ucfg.Option{ucfg.VarExp, ucfg.MaxIdx(4), ucfg.EnableNumKeys(verif.Choice("numkeys", 2) == 1)}
	if verif.Choice("escape-path", 2) == 1 {
		opts = append(opts, ucfg.EscapePath())
	}
	if verif.Choice("pathsep", 2) == 1 {
		opts = append(opts, ucfg.PathSep("."))
	}
	c, err := ucfg.NewFrom(map[string]interface{}{key: "V"}, opts...)
	verif.Assume(err == nil)
	err = c.Merge(map[string]interface{}{"r1": "${" + key + "}", "r2": "${" + key + ":dflt}", "r3": "${" + key + ":+yes}", "r4": "${" + key + ":?msg}"}, opts...)
	verif.Assume(err == nil)
	r1, e1 := c.String("r1", -1, opts...)
	r2, e2 := c.String("r2", -1, opts...)
	r3, e3 := c.String("r3", -1, opts...)
	r4, e4 := c.String("r4", -1, opts...)
	verif.Reach("reference forms compared")
	verif.Assert(e1 == nil && r1 == "V", "C20/refs: ${name} finds the setting stored under the same name")
	verif.Assert(e2 == nil && r2 == "V", "C20/refs: ${name:default} finds the setting stored under the same name")
	verif.Assert(e3 == nil && r3 == "yes", "C20/refs: ${name:+alt} finds the setting stored under the same name")
	verif.Assert(e4 == nil && r4 == "V", "C20/refs: ${name:?msg} finds the setting stored under the same name")
}
