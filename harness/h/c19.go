package h

// C19 Repeated flags accumulate like sequential merges with the flag's options.

import (
	"strings"

	ucfg "github.com/elastic/go-ucfg"
	"github.com/elastic/go-ucfg/flag"
	"github.com/elastic/go-ucfg/parse"

	"vharness/verif"
)

var c19Keys = []string{"a", "a.b", "a.0", "b", "l", "0"}

// value texts covering every syntax of parse.Value, empty value, malformed values
var c19Vals = []string{"1", "-2", "1.5", "true", "str", "'q s'", `"d q"`, "[1,2]", "[3]", "{k: v}", "{k: {n: 1}}", "x,y", "null", "", "[1", "{a", "u=v", "'q=s'"}

// H_C19_flags: the config produced after a sequence of Set calls equals NewFrom(setting, opts)
// + Merge(.., opts) in order; first error is sticky; empty value ignored; bare key means true.
func H_C19_flags() {
	pol := verif.Choice("policy", 3) // none, append, replace
	sep := verif.Choice("pathsep", 2) == 1
	var opts []ucfg.Option
	if sep {
		opts = append(opts, ucfg.PathSep("."))
	}
	switch pol {
	case 1:
		opts = append(opts, ucfg.AppendValues)
	case 2:
		opts = append(opts, ucfg.ReplaceValues)
	}
	fv := flag.NewFlagKeyValue(nil, true, opts...)
	ref := ucfg.New()
	var refErr error
	// thorough: sequences of three arguments over a reduced table of value texts, next to the quick family
	n := 2
	vals := c19Vals
	if verif.Tier() > 0 && verif.Choice("family", 2) == 1 {
		n = 3
		vals = []string{"1", "str", "[1,2]", "{k: v}", "null", "", "[1", "u=v"}
	}
	for i := 0; i < n; i++ {
		p := "arg" + itoa(i)
		key := c19Keys[verif.Choice(p+".key", len(c19Keys))]
		form := verif.Choice(p+".form", 3) // key=value, bare key, value from the malformed end of the table
		var arg string
		var val interface{}
		skip := false
		var perr error
		switch form {
		case 0:
			txt := vals[verif.Choice(p+".val", len(vals))]
			arg = key + "=" + txt
			if txt == "" {
				skip = true
			} else {
				val, perr = parse.Value(txt)
			}
		case 1:
			arg = key
			val = true
		case 2:
			arg = key + "=" + "[1,2" // malformed
			_, perr = parse.Value("[1,2")
		}
		setErr := fv.Set(arg)
		// reference
		var stepErr error
		if !skip {
			if perr != nil {
				stepErr = perr
			} else {
				c, err := ucfg.NewFrom(map[string]interface{}{key: val}, opts...)
				if err != nil {
					stepErr = err
				} else if refErr == nil {
					if err := ref.Merge(c, opts...); err != nil {
						refErr = err
					}
				}
			}
			if stepErr != nil && refErr == nil {
				refErr = stepErr
			}
		}
		verif.Assert((setErr != nil) == (stepErr != nil), "C19/Set reports this argument's own error")
		_ = strings.Join
	}
	verif.Reach("flag sequence compared")
	verif.Assert((fv.Error() != nil) == (refErr != nil), "C19/collector keeps reporting the first error")
	if fv.Error() != nil && refErr != nil {
		verif.Assert(c19SameError(fv.Error(), refErr), "C19/the error the collector reports is the FIRST failing argument's error")
	}
	if refErr != nil {
		verif.Reach("sticky error")
	}
	got, err := unpackTree(fv.Config(), opts...)
	want, err2 := unpackTree(ref, opts...)
	verif.Assert(err == nil && err2 == nil && verif.Eq(got, want), "C19/flag config equals sequential merges with the flag's options")
}

// c19SameError: same failure (ucfg errors by reason and path, others by text).
func c19SameError(a, b error) bool {
	ua, oka := a.(ucfg.Error)
	ub, okb := b.(ucfg.Error)
	if oka != okb {
		return false
	}
	if oka {
		return innermostReason(ua) == innermostReason(ub) && ua.Path() == ub.Path()
	}
	return a.Error() == b.Error()
}
