package h

// C08 Reference resolution terminates: cycles are errors, everything else resolves.

import (
	ucfg "github.com/elastic/go-ucfg"
	"github.com/elastic/go-ucfg/diff"
	"github.com/elastic/go-ucfg/parse"

	"vharness/verif"
)

// expression forms of a setting
type refExpr struct {
	form int // 0 literal, 1 ${X}, 2 p${X}s, 3 ${X}${Y}, 4 ${X:dflt}, 5 ${X:${Y}}, 6 ${X}-${Y}, 7 ${X:+alt}${Y}
	x, y string
	lit  string
}

func (e refExpr) text() string {
	switch e.form {
	case 0:
		return e.lit
	case 1:
		return "${" + e.x + "}"
	case 2:
		return "p${" + e.x + "}s"
	case 3:
		return "${" + e.x + "}${" + e.y + "}"
	case 4:
		return "${" + e.x + ":dflt}"
	case 5:
		return "${" + e.x + ":${" + e.y + "}}"
	case 6:
		return "${" + e.x + "}-${" + e.y + "}"
	default:
		return "${" + e.x + ":+alt}${" + e.y + "}"
	}
}

const (
	rOK = iota
	rCycle
	rMissing
)

type refGraph map[string]refExpr

// sawCycle records that some reference was re-entered during the last oracle
// evaluation, even if a default operator absorbed the error: what an absorbed
// cycle evaluates to is not pinned down by the statement ("may absorb"), so
// value assertions are made only for evaluations without any re-entry.
var sawCycle bool

// unspecified: the last oracle evaluation met a corner the statement leaves open.
var unspecified bool

// evalRef: the statement's semantics. open = references currently being evaluated.
func (g refGraph) evalName(name string, open map[string]bool) (string, int) {
	e, ok := g[name]
	if !ok {
		return "", rMissing
	}
	return g.evalExpr(e, open)
}

func (g refGraph) ref(x string, open map[string]bool) (string, int) {
	if _, ok := g[x]; !ok {
		return "", rMissing
	}
	if open[x] {
		sawCycle = true
		return "", rCycle
	}
	open[x] = true
	v, st := g.evalName(x, open)
	delete(open, x)
	return v, st
}

func (g refGraph) evalExpr(e refExpr, open map[string]bool) (string, int) {
	switch e.form {
	case 0:
		return e.lit, rOK
	case 1:
		return g.ref(e.x, open)
	case 2:
		v, st := g.ref(e.x, open)
		if st != rOK {
			return "", st
		}
		return "p" + v + "s", rOK
	case 3, 6:
		v1, st := g.ref(e.x, open)
		if st != rOK {
			return "", st
		}
		v2, st := g.ref(e.y, open)
		if st != rOK {
			return "", st
		}
		if e.form == 6 {
			return v1 + "-" + v2, rOK
		}
		return v1 + v2, rOK
	case 4:
		v, st := g.ref(e.x, open)
		if st != rOK || v == "" {
			return "dflt", rOK
		}
		return v, rOK
	case 5:
		v, st := g.ref(e.x, open)
		if st == rOK && v != "" {
			return v, rOK
		}
		return g.ref(e.y, open)
	default:
		// alternative: "alt" when X is set (it need not evaluate), then a plain reference
		alt := ""
		if _, ok := g[e.x]; ok {
			alt = "alt" // X exists: it is set, whatever it would evaluate to
			if open[e.x] {
				// ":+" on a variable that is itself being evaluated: "set" or "cyclic" is not pinned down
				sawCycle = true
				unspecified = true
			}
		}
		v2, st := g.ref(e.y, open)
		if st != rOK {
			return "", st
		}
		return alt + v2, rOK
	}
}

func genRefExpr(name string, names []string, lit string) refExpr {
	e := refExpr{form: verif.Choice(name+".form", 8), lit: lit}
	if e.form >= 1 {
		e.x = names[verif.Choice(name+".x", len(names))]
	}
	if e.form == 3 || e.form == 5 || e.form == 6 || e.form == 7 {
		e.y = names[verif.Choice(name+".y", len(names))]
	}
	return e
}

// H_C08_graph: every reference graph over the settings within the bound, every read entry point.
func H_C08_graph() {
	targets := []string{"a", "b", "c", "zz"}
	g := refGraph{}
	g["a"] = genRefExpr("a", targets, "va")
	g["b"] = genRefExpr("b", targets, "vb")
	if verif.Tier() > 0 {
		g["c"] = genRefExpr("c", targets, "vc")
	} else {
		g["c"] = refExpr{form: 0, lit: "vc"}
	}
	opts := []ucfg.Option{ucfg.VarExp, ucfg.PathSep(".")}
	in := map[string]interface{}{}
	for k, e := range g {
		in[k] = e.text()
	}
	c, err := ucfg.NewFrom(in, opts...)
	verif.Assert(err == nil, "C08/config with references accepted")
	if err != nil {
		return
	}
	entry := verif.Choice("entry", 6)
	switch entry {
	case 0, 1, 2:
		name := []string{"a", "b", "c"}[entry]
		sawCycle, unspecified = false, false
		want, st := g.evalName(name, map[string]bool{})
		got, err := c.String(name, -1, opts...)
		if unspecified {
			verif.Reach("unspecified corner: termination only")
			return
		}
		if st == rOK && sawCycle {
			verif.Reach("absorbed cycle") // a single read: the value is the statement's (the default takes over)
		}
		switch st {
		case rOK:
			verif.Reach("resolves")
			verif.Assert(err == nil && got == want, "C08/String: evaluation that never re-enters a reference succeeds with the substituted value")
		case rCycle:
			verif.Reach("cycle")
			verif.Assert(err != nil, "C08/String: re-entered reference is an error")
		default:
			verif.Reach("unresolvable")
			verif.Assert(err != nil, "C08/String: unresolvable reference is an error, never a silently empty value")
		}
	case 3:
		var m map[string]interface{}
		err := c.Unpack(&m, opts...)
		allOK := true
		sawCycle = false
		for _, n := range []string{"a", "b", "c"} {
			g.evalName(n, map[string]bool{})
		}
		if sawCycle {
			// a cycle somewhere (possibly absorbed): within one whole-config read the implementation caches
			// what a setting evaluated to in the context where it was first needed, and what an absorbed
			// cycle yields is not pinned down by the statement: only termination is claimed here
			verif.Reach("absorbed cycle: termination only")
			return
		}
		for _, n := range []string{"a", "b", "c"} {
			want, st := g.evalName(n, map[string]bool{})
			if st != rOK {
				allOK = false
			} else if err == nil {
				verif.Assert(m[n] == want, "C08/Unpack: substituted value")
			}
		}
		verif.Assert((err == nil) == allOK, "C08/Unpack succeeds exactly when every setting resolves")
	case 4:
		// structural read operations must terminate and not fail the whole operation
		c.Has("a", -1, opts...)
		c.CountField("a", opts...)
		c.CountField("b", opts...)
		verif.Reach("structural reads returned")
	case 5:
		k := c.FlattenedKeys(opts...)
		verif.Assert(len(k) <= 3, "C08/FlattenedKeys returns at most the settings")
		d := diff.CompareConfigs(c, c, opts...)
		verif.Assert(!d.HasChanged(), "C08/diff of a config with itself reports no change")
		verif.Reach("flatten and diff returned")
	}
}

type c08Obj struct {
	K string `config:"k"`
}

// H_C08_objects: references to ancestors / descendants / sibling objects.
func H_C08_objects() {
	opts := []ucfg.Option{ucfg.VarExp, ucfg.PathSep(".")}
	var in map[string]interface{}
	cyclic := false
	shape := verif.Choice("shape", 9)
	switch shape {
	case 6: // a list reached along two paths
		in = map[string]interface{}{"l": []interface{}{1, 2}, "x": "${l}", "y": "${l}"}
	case 7: // chain of references to an object
		in = map[string]interface{}{"o": map[string]interface{}{"k": "v"}, "x": "${o}", "y": "${x}"}
	case 8: // two elements of one list refer to the same object
		in = map[string]interface{}{"o": map[string]interface{}{"k": "v"}, "l": []interface{}{"${o}", "${o}"}}
	case 0: // reference to the ancestor that contains the setting
		in = map[string]interface{}{"a": map[string]interface{}{"b": "${a}"}}
		cyclic = true
	case 1: // sibling object, used twice (diamond)
		in = map[string]interface{}{"o": map[string]interface{}{"k": "v"}, "x": "${o}", "y": "${o}"}
	case 2: // reference to a descendant
		in = map[string]interface{}{"a": map[string]interface{}{"b": map[string]interface{}{"c": "leaf"}}, "r": "${a.b}"}
	case 3: // object referencing into itself through a sibling
		in = map[string]interface{}{"a": map[string]interface{}{"b": "${c}"}, "c": "${a}"}
		cyclic = true
	case 4: // the same primitive reached along two paths
		in = map[string]interface{}{"p": "x", "q": "${p}", "r": "${p}-${q}"}
	case 5: // root reference
		in = map[string]interface{}{"a": map[string]interface{}{"b": "${a.b}"}}
		cyclic = true
	}
	c, err := ucfg.NewFrom(in, opts...)
	verif.Assume(err == nil)
	switch verif.Choice("entry", 4) {
	case 3:
		// typed targets: struct fields, typed slices and maps
		if cyclic {
			return
		}
		var err error
		ok := true
		switch shape {
		case 1, 7:
			var t struct {
				O c08Obj            `config:"o"`
				X c08Obj            `config:"x"`
				Y map[string]string `config:"y"`
			}
			err = c.Unpack(&t, opts...)
			ok = t.O.K == "v" && t.X.K == "v" && t.Y["k"] == "v"
			if err == nil && ok {
				// the same with the second field inside an inline struct
				var t2 struct {
					X  c08Obj `config:"x"`
					In struct {
						Y c08Obj `config:"y"`
						O c08Obj `config:"o"`
					} `config:",inline"`
				}
				err = c.Unpack(&t2, opts...)
				ok = t2.X.K == "v" && t2.In.Y.K == "v" && t2.In.O.K == "v"
			}
		case 2:
			var t struct {
				A struct {
					B struct {
						C string `config:"c"`
					} `config:"b"`
				} `config:"a"`
				R struct {
					C string `config:"c"`
				} `config:"r"`
			}
			err = c.Unpack(&t, opts...)
			ok = t.A.B.C == "leaf" && t.R.C == "leaf"
		case 4:
			var t struct {
				P string `config:"p"`
				Q string `config:"q"`
				R string `config:"r"`
			}
			err = c.Unpack(&t, opts...)
			ok = t.P == "x" && t.Q == "x" && t.R == "x-x"
		case 6:
			var t struct {
				L []int   `config:"l"`
				X []int   `config:"x"`
				Y [2]uint `config:"y"`
			}
			err = c.Unpack(&t, opts...)
			ok = len(t.L) == 2 && len(t.X) == 2 && t.X[1] == 2 && t.Y[0] == 1
		case 8:
			var t struct {
				O c08Obj   `config:"o"`
				L []c08Obj `config:"l"`
			}
			err = c.Unpack(&t, opts...)
			ok = len(t.L) == 2 && t.L[0].K == "v" && t.L[1].K == "v"
		}
		verif.Assert(err == nil && ok, "C08/objects: typed Unpack of an acyclic graph succeeds with the referenced values/shape="+itoa(shape))
	case 0:
		var m map[string]interface{}
		err := c.Unpack(&m, opts...)
		verif.Assert((err != nil) == cyclic, "C08/objects: Unpack fails exactly on cyclic graphs")
	case 1:
		keys := c.FlattenedKeys(opts...)
		verif.Reach("flatten returned")
		// acyclic graphs: every reference to an object / a list is expanded to the leaves of what it refers to
		// (listed under the referenced object's own path), never left as a bare leaf
		switch shape {
		case 1, 7, 8:
			verif.Assert(eqStrings(keys, []string{"o.k", "o.k", "o.k"}), "C08/objects: FlattenedKeys expands every reference to an object/shape="+itoa(shape))
		case 6:
			verif.Assert(eqStrings(keys, []string{"l.0", "l.0", "l.0", "l.1", "l.1", "l.1"}), "C08/objects: FlattenedKeys expands every reference to a list")
		}
	case 2:
		diff.CompareConfigs(c, c, opts...)
		verif.Reach("diff returned")
	}
	verif.Reach("object graph read")
}

// H_C08_triple: three mutually referencing settings (quick tier complement of H_C08_graph, which
// varies two): a combines b and c, and b / c refer to each other with and without defaults.
func H_C08_triple() {
	names := []string{"b", "c"}
	g := refGraph{}
	g["a"] = refExpr{form: []int{3, 6}[verif.Choice("a.form", 2)], x: "b", y: "c"}
	for _, n := range names {
		e := refExpr{form: []int{0, 1, 2, 4, 5}[verif.Choice(n+".form", 5)], lit: "v" + n}
		if e.form >= 1 {
			e.x = names[verif.Choice(n+".x", 2)]
		}
		if e.form == 5 {
			e.y = names[verif.Choice(n+".y", 2)]
		}
		g[n] = e
	}
	opts := []ucfg.Option{ucfg.VarExp, ucfg.PathSep(".")}
	in := map[string]interface{}{}
	for k, e := range g {
		in[k] = e.text()
	}
	c, err := ucfg.NewFrom(in, opts...)
	verif.Assume(err == nil)
	name := []string{"a", "b", "c"}[verif.Choice("read", 3)]
	sawCycle, unspecified = false, false
	want, st := g.evalName(name, map[string]bool{})
	got, err := c.String(name, -1, opts...)
	verif.Reach("triple read")
	if st == rOK {
		verif.Assert(err == nil && got == want, "C08/triple: evaluation without an unabsorbed re-entry succeeds with the substituted value")
	} else {
		verif.Assert(err != nil, "C08/triple: re-entered or unresolvable reference is an error")
	}
}

// H_C08_resolver: values handed out by a resolver may contain references themselves (a list or an
// object parsed from the resolver's text is expanded like configuration data). A resolver that
// knows a name may absorb the cyclic-reference error for that name - but reading must finish.
func H_C08_resolver() {
	answers := []string{"v", "${X}", "[${X}]", "[a, ${X}]", "[${Y}]", "{k: '${X}'}", "[[${X}]]"}
	ax := answers[verif.Choice("X", len(answers))]
	ay := answers[verif.Choice("Y", 3)]
	resolver := func(name string) (string, parse.Config, error) {
		switch name {
		case "X":
			return ax, parse.DefaultConfig, nil
		case "Y":
			return ay, parse.DefaultConfig, nil
		}
		return "", parse.DefaultConfig, ucfg.ErrMissing
	}
	opts := []ucfg.Option{ucfg.VarExp, ucfg.PathSep("."), ucfg.Resolve(resolver)}
	var in map[string]interface{}
	switch verif.Choice("config", 3) {
	case 0:
		in = map[string]interface{}{"a": "${X}"}
	case 1:
		in = map[string]interface{}{"X": "${X}"} // the setting has the name of the variable: the resolver absorbs the cycle
	case 2:
		in = map[string]interface{}{"a": "pre-${X}", "b": "${X}"}
	}
	c, err := ucfg.NewFrom(in, opts...)
	verif.Assume(err == nil)
	switch verif.Choice("entry", 5) {
	case 0:
		var m map[string]interface{}
		c.Unpack(&m, opts...)
	case 1:
		for k := range in {
			s, err := c.String(k, -1, opts...)
			if k == "X" && ax == "v" {
				verif.Assert(err == nil && s == "v", "C08/resolver: a resolver that knows the name absorbs the self reference")
			}
		}
	case 2:
		c.FlattenedKeys(opts...)
	case 3:
		for k := range in {
			c.CountField(k, opts...)
			c.Has(k+".0", -1, opts...)
			c.Child(k, -1, opts...)
		}
	case 4:
		diff.CompareConfigs(c, c, opts...)
	}
	verif.Reach("resolver graph read")
}
