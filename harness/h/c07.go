package h

// C07 No input makes the library panic, hang or allocate without bound.

import (
	ucfg "github.com/elastic/go-ucfg"
	"github.com/elastic/go-ucfg/parse"

	"vharness/verif"
)

// parseAlphabet constrains b to the characters the flag-value parser and
// strconv distinguish: structural characters, quotes, backslash, whitespace,
// digits, sign / dot, letters (incl. the ones strconv and the bool table
// inspect) and a few other printable ASCII characters.
func parseAlphabet(b byte) bool {
	structural := verif.Or(verif.Or(verif.Or(b == '[', b == ']'), verif.Or(b == '{', b == '}')), verif.Or(b == ',', b == ':'))
	quotes := verif.Or(verif.Or(b == '"', b == '\''), b == '\\')
	space := verif.Or(b == ' ', verif.Or(b == '\t', b == '\n'))
	digit := verif.And(b >= '0', b <= '9')
	sign := verif.Or(b == '-', verif.Or(b == '+', b == '.'))
	letter := verif.Or(verif.And(b >= 'a', b <= 'z'), verif.And(b >= 'A', b <= 'Z'))
	other := verif.Or(verif.Or(b == '$', b == '_'), verif.Or(b == '=', b == '/'))
	return verif.Or(verif.Or(verif.Or(structural, quotes), verif.Or(space, digit)), verif.Or(verif.Or(sign, letter), other))
}

func alphaString(name string, n int) string {
	s := verif.Bytes(name, n)
	for i := 0; i < n; i++ {
		verif.Assume(parseAlphabet(s[i]))
	}
	return s
}

func itoa(i int) string {
	if i == 0 {
		return "0"
	}
	neg := i < 0
	if neg {
		i = -i
	}
	var buf [20]byte
	p := len(buf)
	for i > 0 {
		p--
		buf[p] = byte('0' + i%10)
		i /= 10
	}
	if neg {
		p--
		buf[p] = '-'
	}
	return string(buf[p:])
}

func parseCfgByChoice() parse.Config {
	switch verif.Choice("parsecfg", 6) {
	case 0:
		return parse.DefaultConfig
	case 1:
		return parse.EnvConfig
	case 2:
		return parse.NoopConfig
	case 3:
		return parse.Config{Array: true, Object: true, IgnoreCommas: true}
	case 4:
		return parse.Config{Array: true, StringDQuote: true}
	default:
		return parse.Config{StringSQuote: true, IgnoreCommas: true}
	}
}

func parseLen() int {
	max := 4
	if verif.Tier() > 0 {
		max = 5
	}
	return verif.Choice("len", max+1)
}

// H_C07_np_parse: every byte string up to the bound through parse.ValueWithConfig
// under representative parser configurations: must return, never panic.
func H_C07_np_parse() {
	cfg := parseCfgByChoice()
	s := alphaString("s", parseLen())
	verif.Reach("monitor: parse called")
	verif.NoPanic("C07/parse.ValueWithConfig panics", func() {
		parse.ValueWithConfig(s, cfg)
	})
}

// H_C07_np_splice: the same strings stored as a setting under VarExp and read
// back: lexer goroutine must terminate (no leak, no deadlock), no panic.
func H_C07_np_splice() {
	n := 3
	if verif.Tier() > 0 {
		n = 5
	}
	var s string
	l := 0
	if verif.Choice("mode", 2) == 1 {
		// sequences of lexer tokens (longer texts than the byte strings below reach): the parser may
		// give up while the lexer goroutine still has tokens to deliver
		toks := []string{"${", "}", ":", ":+", ":?", "a", "$$", "."}
		maxTok := 4
		if verif.Tier() > 0 {
			maxTok = 5
		}
		nt := verif.Choice("ntok", maxTok+1)
		for i := 0; i < nt; i++ {
			s += toks[verif.Choice("tok["+itoa(i)+"]", len(toks))]
		}
		l = 99
	} else {
		l = verif.Choice("len", n+1)
	}
	b := make([]byte, 0)
	if l != 99 {
		b = make([]byte, l)
	}
	for i := 0; i < len(b); i++ {
		// alphabet of the expansion lexer: $ { } : + ? . letter
		switch verif.Choice("s.class["+itoa(i)+"]", 8) {
		case 0:
			b[i] = '$'
		case 1:
			b[i] = '{'
		case 2:
			b[i] = '}'
		case 3:
			b[i] = ':'
		case 4:
			b[i] = '+'
		case 5:
			b[i] = '?'
		case 6:
			b[i] = '.'
		default:
			b[i] = 'a'
		}
	}
	if l != 99 {
		s = string(b)
	}
	opts := []ucfg.Option{ucfg.VarExp, ucfg.PathSep(".")}
	if verif.Choice("escape-path", 2) == 1 {
		opts = append(opts, ucfg.EscapePath())
	}
	verif.Reach("monitor: splice parsed")
	// the lexer runs in its own goroutine. Scheduling: run-until-blocked or yield-at-every-channel-operation
	// (the two extreme policies); thorough: for strings up to length 2 every interleaving of the channel operations
	allSchedules := false
	switch verif.Choice("schedule", 2) {
	case 1:
		if verif.Tier() > 0 && l <= 2 {
			verif.ScheduleAll(true)
			allSchedules = true
		} else {
			verif.ScheduleEager(true)
		}
	}
	verif.NoPanic("C07/varexp setting panics", func() {
		in := map[string]interface{}{"a": "x", "e": "", "v": s, "n": "${${e}}"}
		if allSchedules {
			// (every further lexer run multiplies the interleavings: only the string under test)
			in = map[string]interface{}{"v": s}
		}
		c, err := ucfg.NewFrom(in, opts...)
		if err == nil {
			c.String("v", -1, opts...)
			c.String("n", -1, opts...)
			var m map[string]interface{}
			c.Unpack(&m, opts...)
		}
	})
}

// addrPreState builds the configuration the addressing operations run on.
func addrPreState(opts []ucfg.Option) *ucfg.Config {
	c, err := ucfg.NewFrom(map[string]interface{}{
		"a": []interface{}{1, "two"},
		"b": map[string]interface{}{"c": true, "l": []interface{}{[]interface{}{1}, map[string]interface{}{"k": "v"}}},
		"p": "prim",
		"n": nil,
	}, opts...)
	verif.Assume(err == nil)
	return c
}

func addrName() string {
	switch verif.Choice("name", 9) {
	case 0:
		return ""
	case 1:
		return "a"
	case 2:
		return "b"
	case 3:
		return "p"
	case 4:
		return "b.l"
	case 5:
		return "b.l.1"
	case 6:
		return "zz"
	case 7:
		return "n"
	default:
		// short symbolic segment: digits, sign, dot, letters used by integer syntax
		maxLen := 2
		if verif.Tier() > 0 {
			maxLen = 3
		}
		n := 1 + verif.Choice("name.len", maxLen)
		s := verif.Bytes("name.sym", n)
		for i := 0; i < n; i++ {
			b := s[i]
			verif.Assume(verif.Or(verif.Or(verif.And(b >= '0', b <= '9'), verif.Or(b == '-', b == '+')), verif.Or(verif.Or(b == '.', b == 'a'), verif.Or(b == 'x', b == '_'))))
		}
		return s
	}
}

// H_C07_np_addr: every getter / setter / Has / Remove / Child / CountField with
// arbitrary (name, idx): idx is a full-range symbolic int. MaxIdx is 4, so no
// call may allocate more than 5 list slots.
func H_C07_np_addr() {
	opts := []ucfg.Option{ucfg.MaxIdx(4)}
	if verif.Choice("pathsep", 2) == 1 {
		opts = append(opts, ucfg.PathSep("."))
	}
	name := addrName()
	if !verif.IsSym(name) && verif.Choice("escape-path", 2) == 1 {
		// (the bracket syntax is recognised with a regular expression: concrete names only)
		opts = append(opts, ucfg.EscapePath())
		name = []string{name, "[b.l]", "b.[l]", "[", "[]", "[a", "a]"}[verif.Choice("escaped-name", 7)]
	}
	c := addrPreState(opts)
	idx := verif.Int("idx")
	op := verif.Choice("op", 14)
	verif.AllocLimit(5)
	verif.Reach("monitor: addressing operation")
	verif.NoPanic("C07/addressing operation panics", func() {
		switch op {
		case 0:
			c.Bool(name, idx, opts...)
		case 1:
			c.Int(name, idx, opts...)
		case 2:
			c.Uint(name, idx, opts...)
		case 3:
			c.Float(name, idx, opts...)
		case 4:
			c.String(name, idx, opts...)
		case 5:
			c.Child(name, idx, opts...)
		case 6:
			c.Has(name, idx, opts...)
		case 7:
			c.Remove(name, idx, opts...)
		case 8:
			c.CountField(name, opts...)
		case 9:
			c.SetBool(name, idx, true, opts...)
		case 10:
			c.SetInt(name, idx, 7, opts...)
		case 11:
			c.SetString(name, idx, "s", opts...)
		case 12:
			c.SetChild(name, idx, ucfg.New(), opts...)
		case 13:
			c.SetFloat(name, idx, 1.5, opts...)
		}
	})
	verif.AllocLimit(0)
	// the configuration must still be usable afterwards
	verif.NoPanic("C07/config unusable after addressing operation", func() {
		var m map[string]interface{}
		c.Unpack(&m, opts...)
		c.FlattenedKeys(opts...)
	})
}

type c07Chan struct {
	C chan int `config:"c"`
}
type c07Func struct {
	F func() `config:"f"`
}
type c07Complex struct {
	Z complex128 `config:"z"`
}
type c07IntMap struct {
	M map[int]string `config:"m"`
}
type c07Nested struct {
	L []c07Chan `config:"l"`
}
type c07Plain struct {
	C int `config:"c"`
}
type c07Iface struct {
	E error `config:"e"`
}
type c07Arr struct {
	A [2]map[int]int `config:"a"`
}

// H_C07_np_targets: unsupported and odd unpack targets and merge sources must be
// reported as errors, never as panics.
func H_C07_np_targets() {
	c, err := ucfg.NewFrom(map[string]interface{}{
		"c": 1, "f": "x", "z": 1.5, "m": map[string]interface{}{"1": "a"}, "l": []interface{}{map[string]interface{}{"c": 1}},
		"e": "err", "a": []interface{}{map[string]interface{}{"1": 2}, map[string]interface{}{}},
	})
	verif.Assume(err == nil)
	k := verif.Choice("target", 26)
	verif.Reach("monitor: odd target")
	verif.NoPanic("C07/unsupported target or source panics", func() {
		switch k {
		case 0:
			c.Unpack(&c07Chan{})
		case 1:
			c.Unpack(&c07Func{})
		case 2:
			c.Unpack(&c07Complex{})
		case 3:
			c.Unpack(&c07IntMap{})
		case 4:
			c.Unpack(&c07Nested{})
		case 5:
			c.Unpack(&c07Iface{})
		case 6:
			c.Unpack(&c07Arr{})
		case 7:
			c.Unpack(c07Chan{})
		case 8:
			var p *c07Chan
			c.Unpack(p)
		case 9:
			var i int
			c.Unpack(&i)
		case 10:
			var m map[int]int
			c.Unpack(&m)
		case 11:
			c.Unpack(nil)
		case 12:
			ucfg.NewFrom(map[string]interface{}{"z": complex(1, 2)})
		case 13:
			ucfg.NewFrom(map[string]interface{}{"c": make(chan int), "f": func() {}})
		case 14:
			ucfg.NewFrom(c07IntMap{M: map[int]string{1: "x"}})
		case 15:
			var np *c07Chan
			ucfg.NewFrom(np)
		case 22:
			// a Config passed by value as merge source
			d := ucfg.New()
			d.Merge(*c)
		case 23:
			// an interface{} field that already holds a struct value / a pointer to one
			t := struct {
				F interface{} `config:"m"`
			}{F: c07Plain{C: 1}}
			c.Unpack(&t)
			t2 := struct {
				F interface{} `config:"m"`
			}{F: &c07Plain{C: 1}}
			c.Unpack(&t2)
		case 24:
			// interface{} field holding a map / a slice / a primitive
			t := struct {
				F interface{} `config:"m"`
				G interface{} `config:"l"`
				H interface{} `config:"c"`
			}{F: map[string]interface{}{"old": 1}, G: []int{1, 2}, H: "str"}
			c.Unpack(&t)
		case 25:
			// a Config by value inside the target and the source
			t := struct {
				S ucfg.Config `config:"m"`
			}{}
			c.Unpack(&t)
			ucfg.NewFrom(map[string]interface{}{"k": *c})
		case 16:
			var np *c07Plain // nil pointer to a perfectly fine struct
			c.Unpack(np)
		case 17:
			var nm map[string]interface{} // nil map passed by value
			c.Unpack(nm)
		case 18:
			var any interface{}
			c.Unpack(&any)
		case 19:
			var pp *c07Plain
			c.Unpack(&pp)
		case 20:
			// a config attached below itself
			d := ucfg.New()
			d.SetInt("x", -1, 1)
			d.SetChild("self", -1, d)
			var m map[string]interface{}
			d.Unpack(&m)
			d.FlattenedKeys()
			d.Path(".")
		case 21:
			// a config attached below one of its descendants
			d, err := ucfg.NewFrom(map[string]interface{}{"a": map[string]interface{}{"b": map[string]interface{}{"v": 1}}})
			if err == nil {
				b, err := d.Child("a.b", -1, ucfg.PathSep("."))
				if err == nil {
					b.SetChild("up", -1, d)
					var m map[string]interface{}
					d.Unpack(&m)
					d.FlattenedKeys()
					b.Path(".")
				}
			}
		}
	})
}

// H_C07_np_keys: NewFrom of a map whose key is an arbitrary short string.
func H_C07_np_keys() {
	opts := []ucfg.Option{ucfg.MaxIdx(4)}
	if verif.Choice("pathsep", 2) == 1 {
		opts = append(opts, ucfg.PathSep("."))
	}
	var k string
	if verif.Choice("key-mode", 2) == 1 {
		// concrete keys, with and without the bracket escape syntax switched on
		k = []string{"", "a", ".", "[a.b]", "[a.b].c", "x.[y.z]", "[", "]", "[]", "a.[", "[a", "[0]", "0.[1]"}[verif.Choice("key-text", 13)]
		if verif.Choice("escape-path", 2) == 1 {
			opts = append(opts, ucfg.EscapePath())
		}
		if verif.Choice("num-keys", 2) == 1 {
			opts = append(opts, ucfg.EnableNumKeys(true))
		}
	} else {
		n := 1 + verif.Choice("len", 3)
		k = verif.Bytes("key", n)
		for i := 0; i < n; i++ {
			b := k[i]
			verif.Assume(verif.Or(verif.Or(verif.And(b >= '0', b <= '9'), verif.Or(b == '-', b == '+')), verif.Or(verif.Or(b == '.', b == 'a'), verif.Or(b == 'x', b == '_'))))
		}
	}
	verif.AllocLimit(5)
	verif.Reach("monitor: key normalised")
	verif.NoPanic("C07/NewFrom with arbitrary key panics", func() {
		c, err := ucfg.NewFrom(map[string]interface{}{k: 1}, opts...)
		verif.AllocLimit(0)
		if err == nil {
			var m map[string]interface{}
			c.Unpack(&m, opts...)
			c.FlattenedKeys(opts...)
		}
	})
}
