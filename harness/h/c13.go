package h

// C13 Unpack changes only what the config mentions and nothing when it fails.

import (
	ucfg "github.com/elastic/go-ucfg"

	"vharness/verif"
)

type c13Inner struct {
	X uint64 `config:"x"`
	Y int8   `config:"y"`
}

type c13T struct {
	N      uint64            `config:"n"`
	S      string            `config:"s"`
	I8     int8              `config:"i8" validate:"max=100"`
	L      []uint64          `config:"l"`
	LRep   []uint64          `config:"lrep,replace"`
	LApp   []uint64          `config:"lapp,append"`
	LPre   []uint64          `config:"lpre,prepend"`
	M      map[string]uint64 `config:"m"`
	P      *c13Inner         `config:"p"`
	In     c13Inner          `config:"in"`
	Ign    uint64            `config:",ignore"`
	hidden uint64
	Other  uint64 `config:"other"`
}

func symList(name string, n int) []uint64 {
	l := make([]uint64, n)
	for i := range l {
		l[i] = verif.Uint64(name + "." + itoa(i))
	}
	return l
}

func eqU64s(a, b []uint64) bool {
	if len(a) != len(b) {
		return false
	}
	res := true
	for i := range a {
		res = verif.And(res, a[i] == b[i])
	}
	return res
}

func (a *c13T) sameAs(b *c13T) bool {
	res := verif.And(verif.And(a.N == b.N, a.S == b.S), verif.And(a.I8 == b.I8, a.Other == b.Other))
	res = verif.And(res, verif.And(eqU64s(a.L, b.L), verif.And(eqU64s(a.LRep, b.LRep), verif.And(eqU64s(a.LApp, b.LApp), eqU64s(a.LPre, b.LPre)))))
	res = verif.And(res, verif.And(a.Ign == b.Ign, a.hidden == b.hidden))
	res = verif.And(res, verif.And(a.In.X == b.In.X, a.In.Y == b.In.Y))
	res = verif.And(res, (a.P == nil) == (b.P == nil))
	res = verif.And(res, len(a.M) == len(b.M))
	return res
}

// mergeList: the statement's list semantics for the policy in force.
func mergeList(pol int, old, new []uint64) []uint64 {
	switch pol {
	case polReplace, polArrReplace:
		return new
	case polAppend:
		return append(append([]uint64{}, old...), new...)
	case polPrepend:
		return append(append([]uint64{}, new...), old...)
	}
	out := append([]uint64{}, old...)
	for i, v := range new {
		if i < len(out) {
			out[i] = v
		} else {
			out = append(out, v)
		}
	}
	return out
}

// H_C13_fields: pre-filled struct, the configuration mentions one field (valid or failing);
// global policy by option. Success: exactly the mentioned field changes (lists by policy);
// error: every field of the struct keeps its previous value.
func H_C13_fields() {
	pre := c13T{
		N: verif.Uint64("pre.n"), S: "pre", I8: 5, L: symList("pre.l", 2), LRep: symList("pre.lrep", 2), LApp: symList("pre.lapp", 2), LPre: symList("pre.lpre", 2),
		M: map[string]uint64{"k": verif.Uint64("pre.m.k")}, In: c13Inner{X: verif.Uint64("pre.in.x"), Y: 3},
		Ign: verif.Uint64("pre.ign"), hidden: verif.Uint64("pre.hidden"), Other: verif.Uint64("pre.other"),
	}
	if verif.Choice("pre.p", 2) == 1 {
		pre.P = &c13Inner{X: verif.Uint64("pre.p.x"), Y: 1}
	}
	t := pre
	t.L = append([]uint64{}, pre.L...)
	t.LRep = append([]uint64{}, pre.LRep...)
	t.LApp = append([]uint64{}, pre.LApp...)
	t.LPre = append([]uint64{}, pre.LPre...)
	t.M = map[string]uint64{"k": pre.M["k"]}
	if pre.P != nil {
		cp := *pre.P
		t.P = &cp
	}
	want := t // expected result, adjusted below
	want.M = map[string]uint64{"k": pre.M["k"]}

	pol := verif.Choice("policy", nPolicies)
	cfg := map[string]interface{}{"unmentioned-by-struct": 1}
	newList := symList("cfg.list", 1)
	u := verif.Uint64("cfg.u")
	i := verif.Int64("cfg.i")
	field := verif.Choice("field", 12)
	switch field {
	case 0:
		cfg["n"] = u
		want.N = u
	case 1:
		cfg["s"] = "new"
		want.S = "new"
	case 2:
		cfg["i8"] = i // may be out of range or above max=100: the solver picks failing positions
	case 3:
		cfg["l"] = []interface{}{newList[0]}
		want.L = mergeList(pol, pre.L, newList)
	case 4:
		cfg["lrep"] = []interface{}{newList[0]}
		want.LRep = mergeList(polReplace, pre.LRep, newList)
	case 5:
		cfg["lapp"] = []interface{}{newList[0]}
		want.LApp = mergeList(polAppend, pre.LApp, newList)
	case 6:
		cfg["lpre"] = []interface{}{newList[0]}
		want.LPre = mergeList(polPrepend, pre.LPre, newList)
	case 7:
		cfg["m"] = map[string]interface{}{"j": u}
		want.M["j"] = u
	case 8:
		cfg["p"] = map[string]interface{}{"x": u}
	case 9:
		cfg["in"] = map[string]interface{}{"x": u, "y": i} // y may overflow int8: failure inside a nested struct
	case 10:
		cfg["ign"] = u // ignored field: must stay untouched
	case 11:
		cfg["hidden"] = u
	}
	c, err := ucfg.NewFrom(cfg)
	verif.Assume(err == nil)
	var uerr error
	if !verif.NoPanic("C13/Unpack panics", func() { uerr = c.Unpack(&t, polOpts(pol)...) }) {
		return
	}
	if uerr != nil {
		verif.Reach("failed: struct must be unchanged")
		verif.Assert(t.sameAs(&pre), "C13/after a failed Unpack every field holds its previous value")
		if t.P != nil && pre.P != nil {
			// (contents of pointed-to objects may differ, says the statement)
		}
		return
	}
	verif.Reach("succeeded: only the mentioned field changed")
	switch field {
	case 2:
		want.I8 = int8(i)
		verif.Assert(verif.And(int64(t.I8) == i, i <= 100), "C13/converted value stored")
	case 8:
		verif.Assert(t.P != nil, "C13/pointer allocated")
		if t.P != nil {
			verif.Assert(t.P.X == u, "C13/pointer target field set")
			if pre.P != nil {
				verif.Assert(t.P.Y == pre.P.Y, "C13/unmentioned field of pointed-to struct kept")
			}
		}
		want.P = t.P
	case 9:
		want.In.X = u
		want.In.Y = int8(i)
		verif.Assert(int64(t.In.Y) == i, "C13/nested converted value stored")
	}
	verif.Assert(t.sameAs(&want), "C13/exactly the mentioned field changed/field="+itoa(field)+"/"+polName[pol])
	if field == 7 {
		verif.Assert(verif.And(t.M["j"] == u, t.M["k"] == pre.M["k"]), "C13/map merged, existing entry kept")
	}
}

type c13Init struct {
	A uint64 `config:"a"`
	B uint64 `config:"b"`
}

func (t *c13Init) InitDefaults() { t.B = 42 }

type c13Outer struct {
	I c13Init `config:"i"`
	Z uint64  `config:"z"`
}

// H_C13_initdefaults: fields the config does not mention are as they were or as InitDefaults set them.
func H_C13_initdefaults() {
	var t c13Outer
	t.Z = verif.Uint64("pre.z")
	t.I.A = verif.Uint64("pre.i.a")
	t.I.B = verif.Uint64("pre.i.b")
	pre := t
	u := verif.Uint64("cfg.u")
	cfg := map[string]interface{}{"x": 1}
	mention := verif.Choice("mention", 3)
	switch mention {
	case 1:
		cfg["i"] = map[string]interface{}{"a": u}
	case 2:
		cfg["z"] = u
	}
	c, err := ucfg.NewFrom(cfg)
	verif.Assume(err == nil)
	err = c.Unpack(&t)
	verif.Assert(err == nil, "C13/initdefaults: unpack accepted")
	if err != nil {
		return
	}
	verif.Reach("initdefaults checked")
	verif.Assert(verif.Or(t.I.B == pre.I.B, t.I.B == 42), "C13/unmentioned field is as it was or as InitDefaults set it")
	if mention == 1 {
		verif.Assert(t.I.A == u, "C13/mentioned nested field set")
		verif.Assert(t.Z == pre.Z, "C13/unmentioned sibling kept")
	} else {
		verif.Assert(t.I.A == pre.I.A, "C13/unmentioned nested field kept")
	}
	if mention == 2 {
		verif.Assert(t.Z == u, "C13/mentioned field set")
	}
}

// H_C13_two_fields: the configuration mentions several fields; one of the later ones may fail
// (symbolic value): then the earlier, successfully converted ones must be rolled back too.
func H_C13_two_fields() {
	pre := c13T{N: verif.Uint64("pre.n"), S: "pre", I8: 5, L: symList("pre.l", 2), M: map[string]uint64{"k": verif.Uint64("pre.m.k")},
		In: c13Inner{X: verif.Uint64("pre.in.x"), Y: 3}, Ign: verif.Uint64("pre.ign"), hidden: verif.Uint64("pre.hidden"), Other: verif.Uint64("pre.other")}
	t := pre
	t.L = append([]uint64{}, pre.L...)
	t.M = map[string]uint64{"k": pre.M["k"]}
	u := verif.Uint64("cfg.u")
	i := verif.Int64("cfg.i")
	cfg := map[string]interface{}{"n": u, "s": "new", "l": []interface{}{u}, "other": u}
	// the possibly failing setting sits at the start, in the middle or at the end of the struct
	switch verif.Choice("failing", 3) {
	case 0:
		cfg["i8"] = i
	case 1:
		cfg["in"] = map[string]interface{}{"x": u, "y": i}
	case 2:
		cfg["p"] = map[string]interface{}{"x": u, "y": i}
	}
	c, err := ucfg.NewFrom(cfg)
	verif.Assume(err == nil)
	uerr := c.Unpack(&t)
	if uerr != nil {
		verif.Reach("later field failed")
		verif.Assert(t.sameAs(&pre), "C13/two fields: after a failure the earlier fields are rolled back as well")
		verif.Assert(verif.And(t.N == pre.N, t.Other == pre.Other), "C13/two fields: scalar written before the failure is restored")
	} else {
		verif.Reach("all fields converted")
		verif.Assert(verif.And(verif.And(t.N == u, t.S == "new"), verif.And(t.Other == u, len(t.L) == 2)), "C13/two fields: every mentioned field set")
		verif.Assert(verif.And(t.L[0] == u, t.L[1] == pre.L[1]), "C13/two fields: list merged index-wise by default")
		verif.Assert(verif.And(t.Ign == pre.Ign, t.hidden == pre.hidden), "C13/two fields: ignored and unexported fields untouched")
	}
}

type c13Elem struct {
	Name string `config:"name"`
	Port uint64 `config:"port"`
	note uint64
	Ign  uint64 `config:",ignore"`
}

type c13Slices struct {
	Hosts []c13Elem           `config:"hosts"`
	Maps  []map[string]uint64 `config:"maps"`
	Deep  [][]uint64          `config:"deep"`
}

// H_C13_slice_elements: composite elements of a pre-filled slice are merged into, field by field:
// what the config does not mention inside an element stays.
func H_C13_slice_elements() {
	pre := c13Slices{
		Hosts: []c13Elem{{Name: "a", Port: verif.Uint64("pre.h0.port"), note: verif.Uint64("pre.h0.note"), Ign: 7}, {Name: "b", Port: verif.Uint64("pre.h1.port"), note: 2, Ign: 8}},
		Maps:  []map[string]uint64{{"k": verif.Uint64("pre.m0.k")}},
		Deep:  [][]uint64{{verif.Uint64("pre.d00"), verif.Uint64("pre.d01")}},
	}
	t := c13Slices{Hosts: append([]c13Elem{}, pre.Hosts...), Maps: []map[string]uint64{{"k": pre.Maps[0]["k"]}}, Deep: [][]uint64{append([]uint64{}, pre.Deep[0]...)}}
	u := verif.Uint64("cfg.u")
	cfg := map[string]interface{}{}
	which := verif.Choice("which", 4)
	switch which {
	case 0: // as many configured elements as pre-filled ones, each mentions only the port
		cfg["hosts"] = []interface{}{map[string]interface{}{"port": u}, map[string]interface{}{"port": u}}
	case 1: // fewer
		cfg["hosts"] = []interface{}{map[string]interface{}{"port": u}}
	case 2:
		cfg["maps"] = []interface{}{map[string]interface{}{"j": u}}
	case 3:
		cfg["deep"] = []interface{}{[]interface{}{u}}
	}
	c, err := ucfg.NewFrom(cfg)
	verif.Assume(err == nil)
	err = c.Unpack(&t)
	verif.Assert(err == nil, "C13/slice elements: unpack accepted")
	if err != nil {
		return
	}
	verif.Reach("slice elements merged")
	switch which {
	case 0, 1:
		verif.Assert(len(t.Hosts) == 2, "C13/slice elements: length kept")
		if len(t.Hosts) == 2 {
			verif.Assert(verif.And(t.Hosts[0].Port == u, t.Hosts[0].Name == "a"), "C13/slice elements: mentioned field set, unmentioned field of the element kept")
			verif.Assert(verif.And(t.Hosts[0].note == pre.Hosts[0].note, t.Hosts[0].Ign == 7), "C13/slice elements: unexported and ignored fields of the element kept")
			if which == 0 {
				verif.Assert(verif.And(t.Hosts[1].Port == u, t.Hosts[1].Name == "b"), "C13/slice elements: second element merged")
			} else {
				verif.Assert(verif.And(t.Hosts[1].Port == pre.Hosts[1].Port, t.Hosts[1].Name == "b"), "C13/slice elements: element beyond the configured list untouched")
			}
		}
	case 2:
		verif.Assert(len(t.Maps) == 1 && verif.And(t.Maps[0]["j"] == u, t.Maps[0]["k"] == pre.Maps[0]["k"]), "C13/slice elements: map element merged")
	case 3:
		verif.Assert(len(t.Deep) == 1 && len(t.Deep[0]) == 2 && verif.And(t.Deep[0][0] == u, t.Deep[0][1] == pre.Deep[0][1]), "C13/slice elements: nested slice merged index-wise")
	}
}

type c13Range struct {
	Min  int64    `config:"min"`
	Max  int64    `config:"max"`
	Name string   `config:"name"`
	Tags []string `config:"tags"`
	note uint64
}

var errRange = ucfgErr("min must not exceed max")

type ucfgErr string

func (e ucfgErr) Error() string { return string(e) }

func (r *c13Range) Validate() error {
	if r.Min > r.Max {
		return errRange
	}
	return nil
}

// H_C13_struct_validate: every setting converts, but the struct's own Validate() rejects the
// result (cross-field check): the struct passed in keeps its previous values.
func H_C13_struct_validate() {
	pre := c13Range{Min: 1, Max: 10, Name: "old", Tags: []string{"x"}, note: verif.Uint64("pre.note")}
	t := pre
	t.Tags = append([]string{}, pre.Tags...)
	m := verif.Int64("cfg.min")
	c, err := ucfg.NewFrom(map[string]interface{}{"min": m, "name": "new", "tags": []interface{}{"a", "b"}})
	verif.Assume(err == nil)
	err = c.Unpack(&t)
	if err != nil {
		verif.Reach("struct-level validation failed")
		verif.Assert(verif.And(verif.And(t.Min == pre.Min, t.Max == pre.Max), t.note == pre.note), "C13/struct Validate failed: numeric fields keep their previous values")
		verif.Assert(t.Name == "old" && len(t.Tags) == 1, "C13/struct Validate failed: other fields keep their previous values")
	} else {
		verif.Reach("struct-level validation passed")
		verif.Assert(verif.And(t.Min == m, m <= 10), "C13/struct Validate passed: setting stored")
	}
}

// ---- the merge tag: index-wise merge for the field AND for everything nested below it ----

type c13Nest struct {
	L []uint64            `config:"l"`
	M map[string][]uint64 `config:"m"`
}

type c13InlNest struct {
	IL []uint64 `config:"il"`
}

type c13MergeTag struct {
	Inl    c13InlNest `config:",inline,append"`
	Merged c13Nest    `config:"merged,merge"`
	Direct []uint64   `config:"direct,merge"`
	Plain  c13Nest    `config:"plain"`
	App    c13Nest    `config:"app,append"`
}

// H_C13_merge_tag: a field tagged merge (replace / append analogously) fixes the list policy for the
// lists nested below it, whatever the global policy is; untagged fields follow the global policy.
func H_C13_merge_tag() {
	p := []uint64{verif.Uint64("p0"), verif.Uint64("p1"), verif.Uint64("p2")}
	n := verif.Uint64("n")
	mk := func() c13Nest {
		return c13Nest{L: []uint64{p[0], p[1], p[2]}, M: map[string][]uint64{"k": {p[0], p[1]}}}
	}
	t := c13MergeTag{Merged: mk(), Direct: []uint64{p[0], p[1]}, Plain: mk(), App: mk(), Inl: c13InlNest{IL: []uint64{p[0], p[1]}}}
	nest := map[string]interface{}{"l": []interface{}{n}, "m": map[string]interface{}{"k": []interface{}{n}}}
	c, err := ucfg.NewFrom(map[string]interface{}{"merged": nest, "direct": []interface{}{n}, "plain": nest, "app": nest, "il": []interface{}{n}})
	verif.Assume(err == nil)
	pol := verif.Choice("policy", nPolicies)
	err = c.Unpack(&t, polOpts(pol)...)
	verif.Assert(err == nil, "C13/merge tag: unpack accepted")
	if err != nil {
		return
	}
	verif.Reach("merge tag checked")
	eq := func(got []uint64, want ...uint64) bool {
		if len(got) != len(want) {
			return false
		}
		res := true
		for i := range got {
			res = verif.And(res, got[i] == want[i])
		}
		return res
	}
	byPol := func(old []uint64) []uint64 {
		switch pol {
		case polReplace, polArrReplace:
			return []uint64{n}
		case polAppend:
			return append(append([]uint64{}, old...), n)
		case polPrepend:
			return append([]uint64{n}, old...)
		}
		return append([]uint64{n}, old[1:]...)
	}
	verif.Assert(eq(t.Merged.L, n, p[1], p[2]), "C13/merge tag: list nested below a merge-tagged field is merged by index/"+polName[pol])
	verif.Assert(eq(t.Merged.M["k"], n, p[1]), "C13/merge tag: list in a map below a merge-tagged field is merged by index/"+polName[pol])
	verif.Assert(eq(t.Direct, n, p[1]), "C13/merge tag: the tagged list itself is merged by index/"+polName[pol])
	verif.Assert(eq(t.Plain.L, byPol([]uint64{p[0], p[1], p[2]})...), "C13/merge tag: an untagged sibling follows the global policy/"+polName[pol])
	verif.Assert(eq(t.App.L, p[0], p[1], p[2], n), "C13/merge tag: list nested below an append-tagged field is appended/"+polName[pol])
	verif.Assert(eq(t.Inl.IL, p[0], p[1], n), "C13/merge tag: list of an inline struct tagged append is appended/"+polName[pol])
}
