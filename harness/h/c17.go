package h

// C17 parse.Value accepts every JSON value and reads it back faithfully.

import (
	"strings"

	"github.com/elastic/go-ucfg/parse"

	"vharness/verif"
)

type jval struct {
	kind int // 0 null 1 true 2 false 3 number 4 string 5 array 6 object
	num  int // index into the number table
	str  string
	raw  string // JSON spelling of str
	arr  []*jval
	keys []string
	kraw []string
	obj  []*jval
}

type jnum struct {
	text string
	val  interface{}
}

var c17Numbers = []jnum{
	{"0", uint64(0)}, {"7", uint64(7)}, {"-1", int64(-1)}, {"1.5", 1.5}, {"-0.25", -0.25}, {"1e3", 1000.0}, {"2E-2", 0.02},
	{"18446744073709551615", uint64(18446744073709551615)}, {"-9223372036854775808", int64(-9223372036854775808)}, {"123456789012", uint64(123456789012)},
}

// jsonString draws a string of 0..max units; each unit is one of: plain symbolic
// ASCII character, quote, backslash, slash, control character (escaped as \n or \u00XX),
// non-ASCII character. Returns the value and its JSON spelling (without the quotes).
func jsonString(name string, max int) (string, string) {
	n := verif.Choice(name+".len", max+1)
	val, raw := "", ""
	for i := 0; i < n; i++ {
		u := name + "[" + itoa(i) + "]"
		switch verif.Choice(u+".class", 9) {
		case 8:
			// a character outside the basic plane, raw or as the surrogate pair JSON prescribes for \u escapes
			val += "\U0001F600"
			if verif.Choice(u+".escaped-surrogates", 2) == 1 {
				raw += `\ud83d\ude00`
			} else {
				raw += "\U0001F600"
			}
		case 0:
			b := verif.Byte(u)
			// printable ASCII except the characters JSON escapes
			verif.Assume(verif.And(verif.And(b >= 0x20, b < 0x7f), verif.And(b != '"', b != '\\')))
			s := string([]byte{b})
			val += s
			raw += s
		case 1:
			val += `"`
			raw += `\"`
		case 2:
			val += `\`
			raw += `\\`
		case 3:
			val += "/"
			if verif.Choice(u+".escaped-slash", 2) == 1 {
				raw += `\/`
			} else {
				raw += "/"
			}
		case 4:
			val += "\n"
			raw += `\n`
		case 5:
			val += "\x01"
			raw += `\u0001`
		case 6:
			val += "é"
			if verif.Choice(u+".escaped-unicode", 2) == 1 {
				raw += `\u00e9`
			} else {
				raw += "é"
			}
		case 7:
			val += "\t"
			raw += `\t`
		}
	}
	return val, raw
}

// genJSON: strLen bounds the strings at this level, subStrLen those inside containers; maxLen the
// number of members of a container at this level (containers below hold up to 2).
func genJSON(name string, depth int, strLen, subStrLen, maxLen int) *jval {
	kinds := 5
	if depth > 0 {
		kinds = 7
	}
	v := &jval{kind: verif.Choice(name+".kind", kinds)}
	switch v.kind {
	case 3:
		v.num = verif.Choice(name+".num", len(c17Numbers))
	case 4:
		v.str, v.raw = jsonString(name+".s", strLen)
	case 5:
		n := verif.Choice(name+".len", maxLen+1)
		for i := 0; i < n; i++ {
			v.arr = append(v.arr, genJSON(name+"."+itoa(i), depth-1, subStrLen, subStrLen, 2))
		}
	case 6:
		n := verif.Choice(name+".len", maxLen+1)
		for i := 0; i < n; i++ {
			k := []string{"k", "key two"}[i]
			v.keys = append(v.keys, k)
			v.kraw = append(v.kraw, k)
			v.obj = append(v.obj, genJSON(name+"."+itoa(i), depth-1, subStrLen, subStrLen, 2))
		}
	}
	return v
}

// jsonWS draws one symbolic JSON whitespace character (space, tab, LF, CR).
var c17Gap int

func jsonWS() string {
	c17Gap++
	b := verif.Byte("ws" + itoa(c17Gap))
	verif.Assume(verif.Or(verif.Or(b == ' ', b == '\t'), verif.Or(b == '\n', b == '\r')))
	return string([]byte{b})
}

// render writes the JSON text in one of four layouts: 0 compact, 1 spaces after
// separators and inside brackets, 2 newline-indented, 3 one symbolic JSON whitespace
// character (space, tab, LF or CR, chosen by the solver) in every gap between tokens.
func (v *jval) render(sb *strings.Builder, layout int, indent string) {
	nl := func(ind string) {
		switch layout {
		case 1:
			sb.WriteString(" ")
		case 2:
			sb.WriteString("\n" + ind)
		case 3:
			sb.WriteString(jsonWS())
		}
	}
	switch v.kind {
	case 0:
		sb.WriteString("null")
	case 1:
		sb.WriteString("true")
	case 2:
		sb.WriteString("false")
	case 3:
		sb.WriteString(c17Numbers[v.num].text)
	case 4:
		sb.WriteString(`"` + v.raw + `"`)
	case 5:
		sb.WriteString("[")
		for i, e := range v.arr {
			if i > 0 {
				if layout == 3 {
					sb.WriteString(jsonWS()) // whitespace in front of the comma
				}
				sb.WriteString(",")
			}
			nl(indent + "  ")
			e.render(sb, layout, indent+"  ")
		}
		if len(v.arr) > 0 {
			nl(indent)
		}
		sb.WriteString("]")
	case 6:
		sb.WriteString("{")
		for i, e := range v.obj {
			if i > 0 {
				if layout == 3 {
					sb.WriteString(jsonWS())
				}
				sb.WriteString(",")
			}
			nl(indent + "  ")
			sb.WriteString(`"` + v.kraw[i] + `"`)
			if layout == 3 {
				sb.WriteString(jsonWS() + ":" + jsonWS())
			} else {
				sb.WriteString(":")
				if layout > 0 {
					sb.WriteString(" ")
				}
			}
			e.render(sb, layout, indent+"  ")
		}
		if len(v.obj) > 0 {
			nl(indent)
		}
		sb.WriteString("}")
	}
}

// eqJSON compares what parse.Value returned with the generated value (empty arrays
// and objects come back as nil, which the statement's "same data" reads as empty).
func eqJSON(got interface{}, v *jval) bool {
	switch v.kind {
	case 0:
		return got == nil
	case 1:
		b, ok := got.(bool)
		return ok && b
	case 2:
		b, ok := got.(bool)
		return ok && !b
	case 3:
		switch w := c17Numbers[v.num].val.(type) {
		case uint64:
			g, ok := got.(uint64)
			return ok && g == w
		case int64:
			g, ok := got.(int64)
			return ok && g == w
		case float64:
			g, ok := got.(float64)
			return ok && g == w
		}
		return false
	case 4:
		g, ok := got.(string)
		if !ok {
			return false
		}
		return g == v.str
	case 5:
		if len(v.arr) == 0 {
			return isEmptyGo(got)
		}
		l, ok := got.([]interface{})
		if !ok || len(l) != len(v.arr) {
			return false
		}
		res := true
		for i, e := range v.arr {
			res = verif.And(res, eqJSON(l[i], e))
		}
		return res
	case 6:
		if len(v.obj) == 0 {
			return isEmptyGo(got)
		}
		m, ok := got.(map[string]interface{})
		if !ok || len(m) != len(v.obj) {
			return false
		}
		res := true
		for i, e := range v.obj {
			res = verif.And(res, eqJSON(m[v.keys[i]], e))
		}
		return res
	}
	return false
}

// H_C17_json: JSON value -> text (3 layouts) -> parse.Value -> same data.
func H_C17_json() {
	// quick: depth 1, strings of up to 2 units at the top level and 1 unit inside containers.
	// thorough: (a) depth 1 with 2-unit strings everywhere, (b) depth 2 with 1-unit strings and a
	// single member at the top level.
	depth, strLen, subStrLen, maxLen := 1, 2, 1, 2
	if verif.Tier() > 0 {
		if verif.Choice("family", 2) == 0 {
			subStrLen = 2
		} else {
			depth, strLen, maxLen = 2, 1, 1
		}
	}
	v := genJSON("J", depth, strLen, subStrLen, maxLen)
	layout := verif.Choice("layout", 4)
	var sb strings.Builder
	c17Gap = 0
	if layout == 3 {
		sb.WriteString(jsonWS())
	}
	v.render(&sb, layout, "")
	if layout == 3 {
		sb.WriteString(jsonWS())
	}
	text := sb.String()
	// the JSON document has no top-level comma: IgnoreCommas changes nothing for it
	pcfg := parse.DefaultConfig
	if verif.Choice("ignore-commas", 2) == 1 {
		pcfg.IgnoreCommas = true
	}
	got, err := parse.ValueWithConfig(text, pcfg)
	verif.Reach("json parsed")
	lay := []string{"compact", "spaced", "indented", "any-whitespace"}[layout]
	verif.Assert(err == nil, "C17/JSON text accepted/"+lay)
	if err != nil {
		return
	}
	verif.Assert(eqJSON(got, v), "C17/JSON value read back faithfully/"+lay)
}

// H_C17_flags: the parser options do what they say.
func H_C17_flags() {
	switch verif.Choice("flag", 5) {
	case 0: // objects disabled: braces are taken literally
		got, err := parse.ValueWithConfig("{a: 1}", parse.Config{Array: true, StringDQuote: true, StringSQuote: true, IgnoreCommas: true})
		verif.Assert(err == nil && got == "{a: 1}", "C17/Object disabled: syntax taken literally")
	case 1: // arrays (and objects) disabled
		got, err := parse.ValueWithConfig("[1]", parse.Config{StringDQuote: true, StringSQuote: true, IgnoreCommas: true})
		verif.Assert(err == nil && got == "[1]", "C17/Array disabled: syntax taken literally")
	case 2:
		got, err := parse.ValueWithConfig(`"q"`, parse.Config{Array: true, Object: true, StringSQuote: true})
		verif.Assert(err == nil && got == `"q"`, "C17/StringDQuote disabled: quotes taken literally")
	case 3:
		got, err := parse.ValueWithConfig(`'q'`, parse.Config{Array: true, Object: true, StringDQuote: true})
		verif.Assert(err == nil && got == `'q'`, "C17/StringSQuote disabled: quotes taken literally")
	case 4:
		got, err := parse.ValueWithConfig("a,b", parse.Config{Array: true, Object: true, StringDQuote: true, StringSQuote: true, IgnoreCommas: true})
		verif.Assert(err == nil && got == "a,b", "C17/IgnoreCommas: a top-level comma builds no list")
		got2, err2 := parse.ValueWithConfig("a,b", parse.DefaultConfig)
		l, ok := got2.([]interface{})
		verif.Assert(err2 == nil && ok && len(l) == 2, "C17/default: a top-level comma builds a list")
	}
	verif.Reach("flag checked")
}
