// Command replay runs one harness natively against the real build of
// go-ucfg with inputs taken from a solver model (env VERIF_MODEL).
//
// Exit codes: 0 nothing failed; 3 an assertion failed or a panic escaped a
// NoPanic region (labels printed); 4 usage / model error; 5 an assumption of
// the harness is false under the model; 6 leaked goroutine; other non-zero:
// the Go runtime killed the process (fatal error, stack overflow ...).
package main

import (
	"fmt"
	"os"
	"runtime"
	"time"

	"vharness/h"
	"vharness/verif"
)

func main() {
	if len(os.Args) < 2 {
		fmt.Println("usage: replay <harness>")
		os.Exit(4)
	}
	if os.Args[1] == "conf" {
		for _, n := range os.Args[2:] {
			cf, ok := h.Conf[n]
			if !ok {
				fmt.Println("REPLAY-ERROR unknown conformance function", n)
				os.Exit(4)
			}
			fmt.Printf("=== %s\n%s\n", n, cf())
		}
		return
	}
	f, ok := h.Registry[os.Args[1]]
	if !ok {
		fmt.Println("REPLAY-ERROR unknown harness", os.Args[1])
		os.Exit(4)
	}
	before := runtime.NumGoroutine()
	var ms1 runtime.MemStats
	func() {
		defer func() {
			if r := recover(); r != nil {
				verif.Failures = append(verif.Failures, "uncaught-panic")
				fmt.Printf("PANIC uncaught-panic: %v\n", r)
			}
		}()
		f()
	}()
	runtime.ReadMemStats(&ms1)
	verif.CheckAlloc(ms1.TotalAlloc)
	leaked := true
	for i := 0; i < 50; i++ {
		if runtime.NumGoroutine() <= before {
			leaked = false
			break
		}
		time.Sleep(4 * time.Millisecond)
	}
	if leaked {
		verif.Failures = append(verif.Failures, "goroutine-leak")
		fmt.Printf("LEAK goroutine-leak: %d goroutines before, %d after\n", before, runtime.NumGoroutine())
	}
	if len(verif.Failures) > 0 {
		os.Exit(3)
	}
	fmt.Println("REPLAY-OK")
}
