#!/bin/sh
# tools/verify_mutant.sh <dir-with-mutantX.diff-and-demoX_test.go.txt> <A|B>   (development aid)
# Confirms in a scratch worktree: suite passes with the mutant, demo fails with it, demo passes without it.
D="$1"; X="$2"
export GOFLAGS=-mod=mod GOPROXY=off GOSUMDB=off
W=/tmp/wt/verify-$$
git -C /repo worktree add -q "$W" HEAD || exit 2
trap 'git -C /repo worktree remove --force "$W" >/dev/null 2>&1' EXIT INT TERM
cd "$W" || exit 2
PLACE=$(grep -m1 -o 'place in: *[^ ]*' "$D/demo${X}_test.go.txt" | sed 's/place in: *//')
[ -z "$PLACE" ] && PLACE=.
git apply "$D/mutant$X.diff" || { echo "RESULT patch-does-not-apply"; exit 1; }
if go test -vet=off -count=1 ./... >/tmp/wt/suite.$$ 2>&1; then S=pass; else S=FAIL; fi
cp "$D/demo${X}_test.go.txt" "$PLACE/zz_demo${X}_test.go"
if (cd "$PLACE" && go test -vet=off -count=1 -run "TestDemo$X\$" . >/tmp/wt/demo.$$ 2>&1); then DM=pass; else DM=fail; fi
git checkout -q -- . 
if (cd "$PLACE" && go test -vet=off -count=1 -run "TestDemo$X\$" . >/tmp/wt/demo0.$$ 2>&1); then D0=pass; else D0=FAIL; fi
echo "RESULT suite-with-mutant=$S demo-with-mutant=$DM demo-without=$D0"
rm -f /tmp/wt/suite.$$ /tmp/wt/demo.$$ /tmp/wt/demo0.$$
[ "$S" = pass ] && [ "$DM" = fail ] && [ "$D0" = pass ]
