#!/bin/sh
# tools/import_mutants.sh <Cxx>   (development aid) — copies a sub-agent's deliverables from /tmp/wt/<Cxx> into seeded/<Cxx>{A,B}
P="$1"
for X in A B; do
  [ -f /tmp/wt/$P/mutant$X.diff ] || continue
  mkdir -p /verif/seeded/$P$X
  cp /tmp/wt/$P/mutant$X.diff /verif/seeded/$P$X/patch.diff
  cp /tmp/wt/$P/demo${X}_test.go.txt /verif/seeded/$P$X/demo_test.go.txt
  [ -f /tmp/wt/$P/REPORT.md ] && cp /tmp/wt/$P/REPORT.md /verif/seeded/$P$X/AGENT_REPORT.md
done
ls /verif/seeded/${P}A /verif/seeded/${P}B
