#!/bin/sh
# tools/import_mutants.sh <dir under /tmp/wt> <Cxx> [<suffix for A> <suffix for B>]   (development aid)
# copies a sub-agent's deliverables from /tmp/wt/<dir> into seeded/<Cxx><suffix>
SRC="/tmp/wt/$1"; P="$2"; SA="${3:-A}"; SB="${4:-B}"
for X in A B; do
  [ -f $SRC/mutant$X.diff ] || continue
  if [ $X = A ]; then T=$SA; else T=$SB; fi
  mkdir -p /verif/seeded/$P$T
  cp $SRC/mutant$X.diff /verif/seeded/$P$T/patch.diff
  cp $SRC/demo${X}_test.go.txt /verif/seeded/$P$T/demo_test.go.txt
  [ -f $SRC/REPORT.md ] && cp $SRC/REPORT.md /verif/seeded/$P$T/AGENT_REPORT.md
done
ls /verif/seeded/$P$SA /verif/seeded/$P$SB
