#!/usr/bin/env python3
"""tools/seeded_meta.py [<id>...]   (development aid, not a registered command)

For every /verif/seeded/<id>/ (patch.diff + demo_test.go.txt):
  1. in a scratch worktree of /repo (under /tmp, removed afterwards): the repo's own test suite passes
     with the change, the demonstration fails with it and passes without it;
  2. applies the change to /repo, runs ./check <property> --tier quick (and thorough if quick misses),
     restores /repo (git checkout -- .);
  3. writes seeded/<id>/meta.json.
Never commits anything to /repo.
"""
import json, os, re, subprocess, sys, tempfile, shutil, time

ENV = dict(os.environ, GOFLAGS="-mod=mod", GOPROXY="off", GOSUMDB="off", GOTOOLCHAIN="local")
SEEDED = "/verif/seeded"


def sh(cmd, cwd=None, timeout=3 * 3600):
    p = subprocess.run(cmd, shell=True, cwd=cwd, env=ENV, stdout=subprocess.PIPE, stderr=subprocess.STDOUT, text=True, timeout=timeout)
    return p.returncode, p.stdout


def header(demo):
    lines = []
    for l in open(demo):
        if l.startswith("//"):
            lines.append(l[2:].strip())
        elif l.strip() == "":
            if lines:
                lines.append("")
        else:
            break
    txt = " ".join(x for x in lines if not x.lower().startswith("place in")).strip()
    return re.sub(r"\s+", " ", txt)


def place(demo):
    m = re.search(r"place in: *(\S+)", open(demo).read())
    p = m.group(1) if m else "."
    return p.rstrip(",")


def verify(sid):
    d = os.path.join(SEEDED, sid)
    x = re.search(r"^func TestDemo(\w+)\(", open(f"{d}/demo_test.go.txt").read(), re.M).group(1)
    wt = tempfile.mkdtemp(prefix="seedwt-", dir="/tmp")
    os.rmdir(wt)
    rc, out = sh(f"git -C /repo worktree add -q {wt} HEAD")
    if rc != 0:
        return {"error": out}
    try:
        pl = place(f"{d}/demo_test.go.txt")
        rc, out = sh(f"git apply {d}/patch.diff", cwd=wt)
        if rc != 0:
            return {"error": "patch does not apply: " + out}
        rc_suite, out_suite = sh("go test -vet=off -count=1 ./...", cwd=wt)
        shutil.copy(f"{d}/demo_test.go.txt", f"{wt}/{pl}/zz_demo{x}_test.go")
        rc_with, out_with = sh(f"go test -vet=off -count=1 -run 'TestDemo{x}$' .", cwd=f"{wt}/{pl}")
        sh("git checkout -q -- .", cwd=wt)
        rc_wo, out_wo = sh(f"go test -vet=off -count=1 -run 'TestDemo{x}$' .", cwd=f"{wt}/{pl}")
        return {"suite_with_change": "pass" if rc_suite == 0 else "FAIL",
                "demo_with_change": "fail" if rc_with != 0 else "PASS",
                "demo_without_change": "pass" if rc_wo == 0 else "FAIL",
                "demo_failure_excerpt": [l for l in out_with.splitlines() if "---" in l or "demo" in l.lower() or "panic" in l][:6]}
    finally:
        sh(f"git -C /repo worktree remove --force {wt}")
        shutil.rmtree(wt, ignore_errors=True)


def check(sid, prop, tier):
    d = os.path.join(SEEDED, sid)
    rc, out = sh("git status --porcelain", cwd="/repo")
    if out.strip():
        raise SystemExit("/repo is not clean")
    rc, out = sh(f"git apply {d}/patch.diff", cwd="/repo")
    try:
        t0 = time.time()
        rc, out = sh(f"./check {prop} --tier {tier}", cwd="/verif")
        viol = [l for l in out.splitlines() if l.startswith("VIOLATION")]
        labels = sorted(set(re.sub(r"^\s*finding: *", "", l).strip() for l in out.splitlines() if "label=" in l or l.strip().startswith("finding")))[:8]
        return {"tier": tier, "exit": rc, "verdict": {0: "missed", 1: "caught"}.get(rc, "inconclusive"),
                "violation_lines": len(viol), "wall_s": round(time.time() - t0, 1),
                "first_violations": viol[:3], "summary": out.strip().splitlines()[-1][:200] if out.strip() else ""}
    finally:
        sh("git checkout -- . && git clean -fdq", cwd="/repo")


def main():
    ids = sys.argv[1:] or sorted(x for x in os.listdir(SEEDED) if re.fullmatch(r"C\d\d[A-Z]", x))
    for sid in ids:
        d = os.path.join(SEEDED, sid)
        prop = sid[:3]
        meta_path = f"{d}/meta.json"
        old = json.load(open(meta_path)) if os.path.exists(meta_path) else {}
        v = verify(sid)
        runs = [check(sid, prop, "quick")]
        if runs[0]["verdict"] != "caught" and os.environ.get("THOROUGH") == "1":
            runs.append(check(sid, prop, "thorough"))
        rc, head = sh("git -C /repo rev-parse --short HEAD")
        meta = {
            "id": sid,
            "property": prop,
            "origin": "sub-agent given only the property text and a scratch worktree of /repo; confirmed by tools/seeded_meta.py",
            "files_changed": sorted(set(re.findall(r"^\+\+\+ b/(\S+)", open(f"{d}/patch.diff").read(), re.M))),
            "needs_to_manifest": old.get("needs_to_manifest") or header(f"{d}/demo_test.go.txt"),
            "confirmed_on_repo_head": head.strip(),
            "confirmation": v,
            "what_i_ran": [
                "scratch worktree (git -C /repo worktree add /tmp/seedwt-* HEAD; removed afterwards): git apply patch.diff; go test -vet=off -count=1 ./... ; demo_test.go.txt copied in as zz_demo_test.go and run with and without the change",
                "git -C /repo apply patch.diff; ./check %s --tier quick%s; git -C /repo checkout -- ." % (prop, "" if len(runs) == 1 else " (then --tier thorough)"),
            ],
            "checks": runs,
            "caught_by": next((r["tier"] for r in runs if r["verdict"] == "caught"), None),
        }
        if old.get("notes"):
            meta["notes"] = old["notes"]
        json.dump(meta, open(meta_path, "w"), indent=1)
        print(sid, v.get("suite_with_change"), v.get("demo_with_change"), v.get("demo_without_change"), "|", " ".join(f"{r['tier']}:{r['verdict']}" for r in runs), flush=True)


main()
