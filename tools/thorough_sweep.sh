#!/bin/sh
# tools/thorough_sweep.sh [ids...]   (development aid; meant for `vp run --with-repo`)
# Runs the thorough tier of the given (default: all) properties one after the other against the
# repository snapshot in $VP_RUN_REPO (or /repo), printing one summary line and the wall time each.
# Its results are NOT evidence; they calibrate the thorough bounds.
if [ -n "$VP_RUN_REPO" ]; then sed -i "s#=> /repo#=> $VP_RUN_REPO#" harness/go.mod; fi
./build.sh || exit 2
IDS="$*"; [ -z "$IDS" ] && IDS="C10 C11 C13 C14 C15 C20 C04 C06 C02 C16 C01 C05 C08 C03 C19 C12 C07 C09 C17 C18"
for P in $IDS; do
  S=$(date +%s)
  OUT=$(./check $P --tier thorough 2>&1); RC=$?
  E=$(date +%s)
  echo "== $P rc=$RC wall=$((E-S))s"
  echo "$OUT" | grep -v '^ ' | tail -6 | cut -c1-400
done
