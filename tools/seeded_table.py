#!/usr/bin/env python3
"""tools/seeded_table.py — prints the markdown table of DESIGN.md section 10.5 from seeded/*/meta.json
and writes the one-line summary into each meta.json (development aid)."""
import json, os, re

S = {
 "C01A": "merge.go: a nil element of B's list no longer overwrites a primitive of A's list at the same index (index-wise policy only)",
 "C01B": "a container holding named AND indexed settings loses one part when it is merged as part of a *Config / map source",
 "C02A": "variables.go: ${x:+a} treats set-but-empty (and objects / lists) like unset",
 "C02B": "a reference inside a list element is looked up from the list's own sub-config instead of the root, so it misses values merged in later",
 "C03A": "uint64 setting >= 2^63 into time.Duration: converted to int64 before the range check, wraps with nil error",
 "C03B": "reifyInt accepts exactly 2^(N-1) for sized signed targets (off by one) and wraps to the most negative value",
 "C04A": "with the append policy the kept pre-filled slice elements are not validated",
 "C04B": "min/max on float fields accept NaN",
 "C05A": "lists spelled with dotted keys normalize wrongly from 11 elements on (index compared as text)",
 "C05B": "a nested object with a numeric-looking key next to a named key loses the numeric entries on generic Unpack",
 "C07A": "parse: double-quoted string with \\/ followed by a lone trailing backslash indexes one byte past the input (panic)",
 "C07B": "Remove with a multi-segment path whose intermediate name is missing continues with a nil value (nil dereference)",
 "C08A": "failed evaluations are stored in the per-call value cache: an error absorbed by a default is replayed where the variable would now resolve (needs three interdependent settings)",
 "C08B": "cfgDynamic.toConfig resolves in a scope of its own: FlattenedKeys / CompareConfigs on an object that refers to its enclosing object recurse without bound",
 "C10A": "an embedded *Config next to a dotted key extending into it ({k: src, k.port: 1}) is written to",
 "C10B": "EMPTY lists / objects of the source are shared with the destination instead of copied",
 "C11A": "operator expansions memoise the parsed variable name inside the shared evaluator (write during reads; stale under other options)",
 "C11B": "normalizeValue wraps an embedded *Config sharing its fields; a second spelling of the same object writes into the caller's config",
 "C12A": "fields.setAt reuses spare capacity without writing nil placeholders (stale values resurface after Remove + write past the end)",
 "C12B": "fields.delAt re-creates the shifted elements, so child handles taken before a Remove are detached",
 "C13A": "default list merge into a pre-filled slice of structs resets unmentioned fields when the configured list is longer than N",
 "C13B": "a failing struct-level Validate() leaves the target already modified",
 "C14A": "fields.append records index i instead of l+i for elements appended to a non-empty list: errors name another setting",
 "C14B": "intermediate objects created for dotted keys lose the source metadata",
 "C15A": "Remove renumbers only primitive elements, not elements that are objects / lists",
 "C15B": "re-attaching a child to the same config under another name keeps the old context",
 "C16A": "a per-field policy for one list index also applies to the elements behind it",
 "C16B": "a field option equal to the global policy makes another field option leak below it",
 "C17A": "the \\/ escape handled by ReplaceAll: an escaped backslash followed by '/' (\"\\\\/\") is rejected",
 "C17B": "ASCII fast path of ignoreWhitespace forgets '\\r' (CR / CRLF layouts)",
 "C18A": "cfgFloat.toInt range check with math.MaxInt64 accepts 2^63: JSON/HJSON deliver a wrapped int64 where YAML fails",
 "C18B": "only the outermost object created for a dotted key with >= 2 separators keeps the file metadata",
 "C19A": "flag values are cut at their first '=' (Split instead of SplitN)",
 "C19B": "Collector.Add overwrites the recorded first error with a later one",
 "C20A": "parseField fast path: sign-prefixed in-range segments (+2, -0) become names",
 "C20B": "MaxIdx(0) and negative limits silently fall back to the default 1024",
 "C06A": "cfgUint.toInt rejects exactly MaxInt64 (>= instead of >)",
 "C06B": "dotted tag a.x declared before a struct field a (PathSep): the struct's contents vanish",
 "C09A": "a second kind of conflict error inside the unsorted loop of normalizeMergeInto: error kind depends on map order",
 "C09B": "sortedKeys skips sorting for dictionaries of exactly two entries",
 "C01C": "mergeConfig returns early when source and target are the same config: c.Merge(c, AppendValues/PrependValues) no longer doubles the lists",
 "C01D": "default list merge skips nil entries of B (a nil no longer replaces a primitive at the same index); same trigger as C01A, other code",
 "C02C": "operator expansions (:, :+, :?) split the variable name with the READ-time PathSep instead of the build-time one",
 "C02D": "cfgSub.cpy gives copied list elements the parent of the source list: references inside list elements resolve against a stale root",
 "C03C": "numbers reaching a time.Duration through ${ref} / splice / default are converted without the range check",
 "C03D": "'same kind' fast path in doReifyPrimitive copies a signed-integer setting into a Duration as nanoseconds",
 "C04C": "reifyDoArray starts at `start`: kept defaults in front of appended elements are not validated (same trigger as C04A)",
 "C04D": "validator tags of an inline slice / array field are dropped (routed through reifyInto)",
 "C05C": "normalizeSetField reordered: a path holding a nil placeholder that later receives its value is a duplicate key (lists of 11+ dotted entries, descending struct tags)",
 "C05D": "chaseValue composed of the two helpers: *interface{} chains are no longer unwrapped",
 "C06C": "reifyValue returns a reified slice without pointerizing: []*[]T / map[string]*[]T elements panic on Unpack",
 "C06D": "float32 stored via its shortest decimal: +-MaxFloat32 no longer round-trips (overflow on Unpack)",
 "C07C": "parseSplice no longer drains the lexer: a parse error after an empty expansion leaks the lexer goroutine (\"${}${a}\")",
 "C07D": "EscapePath pre-check indexes in[0]: the empty key / a computed name evaluating to \"\" panics with PathSep + EscapePath",
 "C08C": "failed evaluations cached per call (variant of C08A): an absorbed cyclic error resurfaces at a later plain use in the same Unpack",
 "C08D": "a reference is registered as being evaluated only after its path has been looked up: cycles through dotted paths overflow the stack",
 "C09C": "normalizeMapInto sorts reflect keys by Value.String(): constant for interface-keyed maps, so YAML-shaped inputs are visited in map order",
 "C09D": "sortedMapKeys sorts keys by a parallel names slice that is not permuted: mis-sorted for 3+ entries",
 "C10C": "normalizeValue copies an embedded *Config only when it is a root: a child handle in a slice next to a dotted key is written to",
 "C10D": "mergeConfigDict re-attaches instead of copying when the destination held a primitive where the source has an object: shared subtree",
 "C11C": "expansionSingle.eval stores the first reader's PathSep in the shared evaluator (write during reads, sticky separator)",
 "C11D": "Merge(..., MetaData(m)) labels the SOURCE config's own settings",
 "C12C": "Has fast path uses HasField on the unsplit name: a literal key \"a.b\" answers Has(\"a.b\", PathSep) although no such path exists",
 "C12D": "fields.delAt copies the elements it shifts down: handles behind a removed element are detached (variant of C12B)",
 "C13C": "reifyStruct stores the struct before its own Validate() runs: a failing top-level Validate leaves the target modified",
 "C13D": "a `merge` tag no longer resets the handling for lists nested below the tagged field",
 "C14C": "PrependValues keeps old entries without renumbering: errors in moved entries name another index",
 "C14D": "unpackWith no longer wraps errors that already are ucfg.Errors: path and source lost for Unpack(interface{}) types",
 "C15C": "fields.append moves elements that already belong to the list: a self merge with append/prepend stores the same nodes twice with stale indices",
 "C15D": "setContextField simplified to value.SetContext (a no-op for attached sub-configs): Remove does not renumber objects/lists",
 "C16C": "fieldOptsLookup returns the parent options when the field's policy equals the one in force: the handling tree is not descended",
 "C16D": "per-index options stick to all later list elements (idxOpts never reset)",
 "C17D": "IgnoreCommas moved into the unquoted-string scanner: commas inside arrays/objects stop separating unquoted primitives",
 "C18C": "objects created for dotted keys lose their metadata (self-assignment after reordering)",
 "C18D": "cfgInt/cfgUint accept 0/1 as bool, cfgFloat does not: YAML and JSON disagree on {enabled: 1}",
 "C19C": "flag values that parse to nil (null, [], {}, blanks) are dropped like the empty value",
 "C19D": "NewCollector copies its options into a zero-length slice: merge policies of the flag are lost",
 "C20C": "MaxIdx default applied 'if zero' after the options ran: MaxIdx(0) silently becomes 1024",
 "C20D": "expansionAlt passes EscapePath where EnableNumKeys belongs: ${5:+x} decides index-vs-name by the wrong option",
 "C04E": "validateMin/validateMax recognise durations only by value: a *time.Duration default is compared in nanoseconds against a bound in seconds",
 "C13E": "default list merge writes into the pre-filled slice when the configured list is not longer: the caller's slice is modified by a failing Unpack",
 "C13F": "an inline struct / map field loses its own policy tag for its sub-fields (reifyInto(opts) instead of the field's options)",
 "C14E": "setContextField without the cfgSub case (value-receiver SetContext is a no-op): errors in shifted list objects name the old index (mechanism of C15D, observed through C14)",
 "C14F": "only the innermost new level of a dotted key inherits the metadata: errors against outer created levels lose the source",
 "C18E": "cfgFloat.toString formats whole numbers through int64: [2^63, 2^64) and -2^63 read differently through JSON and YAML",
 "C19E": "Collector.Add skips configs without named top-level fields: list-shaped settings (-D 0=x) are dropped",
 "C06E": "normalizeArray fast path for integer kinds stores []time.Duration / [N]time.Duration elements as nanosecond counts (read back as seconds)",
 "C01E": "mergeConfigPrependArr drops the target's dictionary part: an object (or mixed node) that receives a list under PrependValues loses its named settings",
 "C05E": "normalizeMapInto de-duplicates key names: \"a\" and MyStr(\"a\") in an interface-keyed map are no longer a duplicate",
 "C05F": "a root *Config used as a named setting is not copied: a dotted key extending it writes into the caller's Config, a second use sees the addition",
 "C08E": "inline fields skip the per-field reset of the active references: an object reference used by a field before an inline struct and inside it is a cycle",
 "C08F": "flattenedKeys shares one active-reference set per level: the second sibling referring to the same object is listed as a bare leaf",
 "C10E": "cfgSub.cpy reuses the fields of an empty sub-configuration (variant of C10B in other code)",
 "C12E": "the storedInPlace guard dropped from the index-wise list merge: handles to merged list elements go stale",
 "C16E": "includeWildcard hands the whole parent tree down whenever any ** option exists: a policy for top-level a also matches b.a",
}

rows = []
for sid in sorted(S):
    mp = f"/verif/seeded/{sid}/meta.json"
    if not os.path.exists(mp):
        continue
    m = json.load(open(mp))
    m["summary"] = S[sid]
    json.dump(m, open(mp, "w"), indent=1)
    c = m["confirmation"]
    ok = c.get("suite_with_change") == "pass" and c.get("demo_with_change") == "fail" and c.get("demo_without_change") == "pass"
    runs = m["checks"]
    r = next((x for x in runs if x["verdict"] == "caught"), runs[-1])
    rows.append(f"| {sid} | {', '.join(m['files_changed'])} | {S[sid]} | {'yes' if ok else 'NO'} | {r['verdict']} ({r['tier']}, {r['violation_lines']} violation line(s), {r['wall_s']} s) |")
print("| id | file | change (what it needs to manifest is in seeded/<id>/meta.json) | confirmed | `./check <property>` with the change applied |")
print("|---|---|---|---|---|")
print("\n".join(rows))
