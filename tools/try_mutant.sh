#!/bin/sh
# tools/try_mutant.sh <patch.diff> <property-id>...   (development aid, not a registered command)
# Applies a seeded change to /repo, runs the quick checks of the given properties
# and restores /repo. Prints one line per property: caught / missed / inconclusive.
DIFF="$1"; shift
cd /repo || exit 2
if [ -n "$(git status --porcelain)" ]; then echo "/repo is not clean"; exit 2; fi
git apply "$DIFF" || { echo "patch does not apply"; exit 2; }
trap 'cd /repo && git checkout -- . && git clean -fdq' EXIT INT TERM
if ! go build ./... 2>/dev/null; then echo "mutant does not compile"; exit 2; fi
cd /verif
for P in "$@"; do
  OUT=$(./check "$P" --tier "${TIER:-quick}" 2>&1); RC=$?
  case $RC in
    1) echo "$P: CAUGHT  $(echo "$OUT" | grep -c '^VIOLATION') violation line(s)";;
    0) echo "$P: missed  ($(echo "$OUT" | tail -1 | cut -c1-120))";;
    *) echo "$P: inconclusive rc=$RC  ($(echo "$OUT" | grep INCONCLUSIVE | head -2 | cut -c1-200))";;
  esac
done
