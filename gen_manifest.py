#!/usr/bin/env python3
"""Regenerates MANIFEST.json from the list of claimed properties below."""
import json, os
claimed = json.load(open(os.path.join(os.path.dirname(__file__), 'claimed.json')))
props = [json.loads(l) for l in open(os.path.join(os.path.dirname(__file__), 'properties.jsonl'))]
checks = []
na = []
for p in props:
    pid = p['id']
    if pid in claimed['claimed']:
        c = claimed['claimed'][pid]
        checks.append({
            "property_id": pid,
            "quick_cmd": f"./check {pid} --tier quick",
            "thorough_cmd": f"./check {pid} --tier thorough",
            "evidence_file": f"evidence/{pid}.json",
            "replay_cmd_template": "./check --replay {path}",
            "engine": "gosym",
            "level_claimed": {
                "category": "model_checking",
                "text": c['text'],
                "design_ref": c.get('design_ref', 'DESIGN.md section 4 / ' + pid),
            },
            "level_note": c.get('note', "Bounded: holds for every value of the symbolic inputs within the bounds printed in the evidence file (bounds per harness, what lies outside is listed there). Trusted base: go/packages+go/ssa (x/tools v0.29.0), the gosym interpreter and its reflect model (validated by the engine-vs-native conformance suite and by native replay of every reported model and of one witness per reach label), the stubs listed in the evidence, z3 4.8.12 (one-shot z3/z3-new re-decision of timeouts), the Go toolchain used for replay."),
            "technique": c.get('technique', "bounded symbolic execution of the real go-ucfg code from go/ssa, every branch and assertion decided by an SMT solver (z3); counterexamples replayed natively"),
        })
    else:
        na.append({"property_id": pid, "reason": claimed['not_applicable'].get(pid, "not claimed: no sound solver-based check has been built for this property yet")})
m = {
    "version": 1,
    "setup_cmd": "./build.sh && ./check --conf",
    "hooks": {
        "guard": "verif",
        "enable": "no hooks are needed: harnesses use the public API only and observers are engine monitors; nothing in /repo is guarded by the tag",
        "baseline_off_cmd": "cd /repo && GOFLAGS=-mod=mod GOPROXY=off GOSUMDB=off go test -vet=off -count=1 ./...",
        "source_commits": [],
        "add_only": True,
    },
    "engines": [{
        "name": "gosym",
        "path": "engine/",
        "serves_properties": sorted(claimed['claimed'].keys()),
        "kind_free_text": "bounded symbolic interpreter for go/ssa (fork of x/tools go/ssa/interp) + SMT (z3 -in, push/pop), decision-vector DFS with deterministic re-execution, model of package reflect over go/types, native replay of every counterexample",
    }],
    "checks": checks,
    "notes": "Exit 0 = held within the stated bounds (KNOWN-FINDING lines for entries of known_findings.json); exit 1 + VIOLATION line = natively reproduced counterexample; exit 2 + INCONCLUSIVE lines = solver unknown, bound hit, unsupported construct, engine/native divergence or vacuity guard failure (never reported as success). Genuine defects repaired in /repo are recorded under 'fixed' in known_findings.json.",
    "not_applicable": na,
}
json.dump(m, open(os.path.join(os.path.dirname(__file__), 'MANIFEST.json'), 'w'), indent=1)
print("claimed:", sorted(claimed['claimed'].keys()))
