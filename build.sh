#!/bin/sh
# Build the engine (offline). Used by MANIFEST.setup_cmd and by ./check when the binary is missing or stale.
set -e
cd "$(dirname "$0")/engine"
export GOFLAGS=-mod=mod GOPROXY=off GOSUMDB=off GOTOOLCHAIN=local CGO_ENABLED=0
mkdir -p ../bin
go build -o ../bin/gosym ./cmd/gosym
